#!/bin/sh
# runs every registered check in the given tier sequentially; prints the summary lines and the wall time
TIER="${1:-quick}"
shift
PROPS="${@:-C16 C04 C06 C07 C20 C03 C14 C15 C13 C10 C02 C11 C09 C08 C17 C19 C18 C12 C05 C01}"
cd "$(dirname "$0")/.."
for p in $PROPS; do
  /usr/bin/time -f "$p %es" timeout ${CHECK_TIMEOUT:-3600} bin/check $p $TIER 2>&1 | grep -v "^  harness" | cut -c1-300 | tail -${LINES_PER:-4}
done
