#!/bin/sh
# runs every registered check in the given tier sequentially; prints the summary lines
TIER="${1:-quick}"
cd "$(dirname "$0")/.."
for p in C01 C02 C03 C04 C05 C06 C07 C08 C09 C10 C11 C12 C13 C14 C15 C16 C17 C18 C19 C20; do
  /usr/bin/time -f "%es" bin/check $p $TIER 2>&1 | grep -v "^  harness" | cut -c1-300 | tail -${LINES_PER:-4}
done
