"""Run one replay vector concretely inside the engine (debugging / translator validation).
usage: python3-vt tools/conc.py <vector.json>"""
import json, sys, os
sys.path.insert(0, os.path.dirname(os.path.dirname(os.path.abspath(__file__))))
from gosmt import run, engine as E
vec = json.load(open(sys.argv[1]))
scratch = run.make_scratch()
try:
    exe = run.ensure_frontend()
    base = vec['entry'].split('[')[0]
    rc, out, err = run.sh([exe, '-dir', scratch, '-entries', '^' + base + '(\\[|$)', '-o', scratch + '/ir.json'])
    ir = E.load_ir(scratch + '/ir.json')
    fid = [f for f in ir['entries'] if run.entry_key(f) == vec['entry']][0]
    eng = E.Engine(ir, {'params': vec.get('params', {}), 'vector': vec['values'], 'debug': len(sys.argv) > 2})
    res = eng.run_entry(fid)
    print(json.dumps({k: res[k] for k in ('paths', 'ended', 'unsupported', 'covers')}))
    for lab, a in res['asserts'].items():
        if a['failed']:
            print('FAILED', lab, a)
finally:
    import shutil; shutil.rmtree(scratch)
