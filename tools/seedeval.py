#!/usr/bin/env python3
"""Evaluate a seeded change: tools/seedeval.py <worktree-or-dir> <A|B|...> <Cnn> [tier ...]

1. applies <dir>/seed<V>.diff to a scratch copy of /repo (never to /repo),
2. confirms: baseline suite passes with the change; the demonstration test fails with the change and passes without,
3. runs the registered check(s) of the property against the scratch copy (evidence goes to a temp dir),
4. stores /verif/seeded/<Cnn>-<V>/{patch.diff, demo_test.go, meta.json}.
"""
import json
import os
import re
import shutil
import subprocess
import sys
import tempfile

ENV = dict(os.environ, GOFLAGS='-mod=mod', GOPROXY='off', GOSUMDB='off', GOTOOLCHAIN='local')


def sh(cmd, cwd=None, env=None, timeout=3600):
    p = subprocess.run(cmd, cwd=cwd, env=env or ENV, stdout=subprocess.PIPE, stderr=subprocess.STDOUT, timeout=timeout, shell=isinstance(cmd, str))
    return p.returncode, p.stdout.decode(errors='replace')


def copy_repo(dst):
    shutil.copytree('/repo', dst, ignore=shutil.ignore_patterns('.git'))


def main():
    src, var, pid = sys.argv[1], sys.argv[2], sys.argv[3]
    tiers = sys.argv[4:] or ['quick']
    patch = os.path.join(src, 'seed%s.diff' % var)
    demo = os.path.join(src, 'seed%s_demo_test.go' % var)
    meta_in = os.path.join(src, 'seed%s.json' % var)
    meta = json.load(open(meta_in)) if os.path.exists(meta_in) else {}
    work = tempfile.mkdtemp(prefix='seedeval-')
    out = {'property': pid, 'variant': var, 'summary': meta.get('summary'), 'needs': meta.get('needs'), 'ran': []}
    try:
        clean, mut = os.path.join(work, 'clean'), os.path.join(work, 'mut')
        copy_repo(clean)
        copy_repo(mut)
        rc, o = sh(['patch', '-p1', '-s', '-i', os.path.abspath(patch)], cwd=mut)
        out['patch_applies'] = rc == 0
        if rc != 0:
            print('patch does not apply:', o)
            out['ok'] = False
            return out
        rc, o = sh(['go', 'test', '-vet=off', '-count=1', './...'], cwd=mut)
        out['baseline_passes_with_change'] = rc == 0
        out['ran'].append('go test -vet=off -count=1 ./... (with change): rc=%d' % rc)
        race = '-race' if 'race' in (meta.get('commands') or '') or pid in ('C11', 'C19') else None
        for d, key in ((mut, 'demo_fails_with_change'), (clean, 'demo_passes_without_change')):
            shutil.copy(demo, os.path.join(d, 'zz_seed_demo_test.go'))
            cmd = ['go', 'test', '-vet=off', '-count=1', '-run', 'TestSeed'] + ([race] if race else []) + ['.']
            rc, o = sh(cmd, cwd=d, timeout=1200)
            os.remove(os.path.join(d, 'zz_seed_demo_test.go'))
            out[key] = (rc != 0) if d == mut else (rc == 0)
            out['ran'].append('%s in %s tree: rc=%d' % (' '.join(cmd), 'changed' if d == mut else 'clean', rc))
            if d == mut:
                out['demo_output'] = o[-600:]
        admissible = out['baseline_passes_with_change'] and out['demo_fails_with_change'] and out['demo_passes_without_change']
        out['admissible'] = admissible
        out['checks'] = {}
        for tier in tiers:
            ev = tempfile.mkdtemp(prefix='seedev-')
            env = dict(ENV, SIGNAL_REPO=mut, VERIF_EVIDENCE_DIR=ev)
            rc, o = sh(['/verif/bin/check', pid, tier], env=env, timeout=7200)
            lines = [l for l in o.splitlines() if l.startswith(('VIOLATION', 'KNOWN-FINDING', 'INCONCLUSIVE', 'UNCONFIRMED', 'VACUOUS', 'property=', '  ...'))]
            viol = [l for l in lines if l.startswith('VIOLATION')]
            labels = sorted(set(re.findall(r'assertion=(\S+)', o)))
            out['checks'][tier] = {'exit': rc, 'detected': rc == 1 and bool(viol), 'violations': len(viol), 'assertions': labels[:12],
                                   'summary': [l[:300] for l in lines[-4:]]}
            out['ran'].append('SIGNAL_REPO=<scratch copy with change> bin/check %s %s: exit %d' % (pid, tier, rc))
            shutil.rmtree(ev, ignore_errors=True)
            if rc == 1:
                break
        out['detected'] = any(c['detected'] for c in out['checks'].values())
        dest = os.path.join('/verif/seeded', '%s-%s' % (pid, var))
        if admissible:
            os.makedirs(dest, exist_ok=True)
            shutil.copy(patch, os.path.join(dest, 'patch.diff'))
            shutil.copy(demo, os.path.join(dest, 'demo_test.go'))
            json.dump({'breaks_property': pid, 'what_changed': meta.get('summary'), 'needs_to_manifest': meta.get('needs'),
                       'origin': 'independent sub-agent given only the property text and a scratch worktree',
                       'confirmed': {k: out.get(k) for k in ('baseline_passes_with_change', 'demo_fails_with_change', 'demo_passes_without_change')},
                       'what_was_run': out['ran'], 'check_results': out['checks'], 'detected_by_check': out['detected']},
                      open(os.path.join(dest, 'meta.json'), 'w'), indent=1)
        return out
    finally:
        shutil.rmtree(work, ignore_errors=True)
        print(json.dumps(out, indent=1)[:3000])


if __name__ == '__main__':
    main()
