#!/usr/bin/env python3
"""Adds the explanatory notes to the meta.json of the seeded changes that the check of their own
property does not (and should not / cannot) report. Run after tools/seedeval.py re-evaluations."""
import json
import os

NOTES = {
    'C10-E': ('C11', 'Sequential histories are unaffected by this change (the double hand-out needs two overlapping Gets), so the C10 check '
              'rightly stays silent; it is a concurrency defect and is reported by the C11 check (bin/check C11 quick: exit 1, '
              'exclusive-ownership and no-data-race, confirmed natively under the race detector).'),
    'C11-D': (None, 'Out of the model: the defect needs a garbage collection that runs a finalizer; finalizers and the collector are not '
              'encoded (runtime.SetFinalizer is reported as INCONCLUSIVE).'),
    'C05-F': (None, 'Out of the bounds: needs >= 65536 samples and goroutines started inside the library; the checks stop at 4100 samples (the path with the defect is never entered).'),
    'C11-F': (None, 'Out of the bounds: needs >= 65536 samples and goroutines started inside the library; the checks stop at 4100 samples.'),
    'C19-E': (None, 'Out of the bounds: the parallel path starts at 32768 samples and uses goroutines started inside the library.'),
    'C18-E': (None, 'Out of reach of the technique: the allocation is introduced by the compiler escape analysis in the caller (stack-backed '
              'destination slices reached through a function value); no allocating instruction exists at SSA level. Stated limit of C18.'),
}

for key, (other, note) in NOTES.items():
    p = os.path.join('/verif/seeded', key, 'meta.json')
    if not os.path.exists(p):
        continue
    m = json.load(open(p))
    m['note'] = note
    if other:
        m['detected_by_other_check'] = other
    json.dump(m, open(p, 'w'), indent=1)
    print('annotated', key)
