#!/usr/bin/env python3
"""Adds the explanatory notes to the meta.json of the seeded changes that the check of their own
property does not (and should not / cannot) report. Run after tools/seedeval.py re-evaluations."""
import json
import os

NOTES = {
    'C10-E': ('C11', 'Sequential histories are unaffected by this change (the double hand-out needs two overlapping Gets), so the C10 check '
              'rightly stays silent; it is a concurrency defect and is reported by the C11 check (bin/check C11 quick: exit 1, '
              'exclusive-ownership and no-data-race, confirmed natively under the race detector).'),
    'C11-D': (None, 'Out of the model: the defect needs a garbage collection that runs a finalizer; finalizers and the collector are not '
              'encoded (runtime.SetFinalizer is reported as INCONCLUSIVE).'),
    'C05-F': (None, 'Outside the quick bounds (4100 samples). Reported by the thorough tier since the 65543-sample jobs were added: '
              'bin/check C05 thorough: exit 1, C05_Big_FloatAsSigned / C05_Big_FloatAsUnsigned size-independent (stale tail positions), confirmed natively.', 'thorough'),
    'C11-F': (None, 'Outside the quick bounds (4100 samples). Reported by the thorough tier since the 65543-sample jobs were added: '
              'bin/check C11 thorough: exit 1, C11_BigCycle no-data-race (loop variable) and big:zero, confirmed natively under the race detector; '
              'bin/check C10 thorough reports big:zero as well.', 'thorough'),
    'C19-E': (None, 'Outside the quick bounds (4100 samples). Reported by the thorough tier since C19_BigStriped (65542 samples) was added: '
              'bin/check C19 thorough: exit 1, no-data-race on the named result of ReadStriped.', 'thorough'),
    'C18-E': (None, 'Out of reach of the technique: the allocation is introduced by the compiler escape analysis in the caller (stack-backed '
              'destination slices reached through a function value); no allocating instruction exists at SSA level. Stated limit of C18.'),
}

for key, val in NOTES.items():
    other, note = val[0], val[1]
    p = os.path.join('/verif/seeded', key, 'meta.json')
    if not os.path.exists(p):
        continue
    m = json.load(open(p))
    m['note'] = note
    if other:
        m['detected_by_other_check'] = other
    if len(val) > 2:
        m['detected_by_tier'] = val[2]
        m['detected_by_check'] = True
    json.dump(m, open(p, 'w'), indent=1)
    print('annotated', key)
