#!/bin/sh
# usage: tools/mutcheck.sh <patch.diff | sed-expr:file> <Cnn> [tier]
# Applies a patch to a scratch copy of /repo (never /repo itself), verifies the baseline tests
# still pass there, and runs the check against the copy.
set -e
P="$1"; PID="$2"; TIER="${3:-quick}"
D=$(mktemp -d /tmp/mut.XXXXXX)
trap 'rm -rf "$D" "$E"' EXIT
cp -r /repo/. "$D/"
rm -rf "$D/.git"
P=$(readlink -f "$P"); (cd "$D" && patch -p1 -s < "$P")
export GOFLAGS=-mod=mod GOPROXY=off GOSUMDB=off GOTOOLCHAIN=local
if (cd "$D" && go test -vet=off -count=1 ./... >/dev/null 2>&1); then echo "baseline tests: pass"; else echo "baseline tests: FAIL (mutant not admissible)"; fi
E=$(mktemp -d /tmp/mutev.XXXXXX); VERIF_EVIDENCE_DIR="$E" SIGNAL_REPO="$D" /verif/bin/check "$PID" "$TIER" | cut -c1-300 | grep -v "^  harness" | head -${MUT_LINES:-8}
