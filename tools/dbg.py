"""Debug helper: run one harness entry in-process, log slow solver queries, print the first violation.
usage: python3-vt tools/dbg.py '<entry>' '<params json>' ['<opts json>']   (opts: dl=<seconds>, stop=1 to stop at first violation)"""
import json
import os
import sys
import time

sys.path.insert(0, os.path.dirname(os.path.dirname(os.path.abspath(__file__))))
from gosmt import run, engine as E  # noqa: E402

entry = sys.argv[1]
params = json.loads(sys.argv[2]) if len(sys.argv) > 2 else {}
opts = json.loads(sys.argv[3]) if len(sys.argv) > 3 else {}
scratch = run.make_scratch()
try:
    exe = run.ensure_frontend()
    base = entry.split('[')[0]
    rc, out, err = run.sh([exe, '-dir', scratch, '-entries', '^' + base + '(\\[|$)', '-o', scratch + '/ir.json'])
    if rc:
        print(err)
    ir = E.load_ir(scratch + '/ir.json')
    fid = [f for f in ir['entries'] if run.entry_key(f) == entry][0]
    eng = E.Engine(ir, dict(opts, params=params))
    if opts.get('mode') == 'value':
        from gosmt import valuemode
        valuemode.install(eng)
    if opts.get('threads'):
        from gosmt import threads
        threads.install(eng)
    oc = eng.solver.check
    nslow = [0]

    def chk(pc, extra=None):
        t = time.time()
        r = oc(pc, extra)
        dt = time.time() - t
        if dt > float(opts.get('slow', 1.0)):
            nslow[0] += 1
            print('SLOW', round(dt, 2), r, len(pc), file=sys.stderr)
            if nslow[0] == 1:
                open('/tmp/slow.smt2', 'w').write(eng.solver.export(pc, extra))
        return r
    eng.solver.check = chk
    orig = eng.report_violation

    def rv(st, label, model, extra_text=None):
        print('VIOLATION', label, extra_text, eng.cur_pos(st))
        if model is not None:
            for n, t, term in st.nondet:
                print('  ', n, model.eval(term, model_completion=True) if E.is_sym(term) else term)
        orig(st, label, model, extra_text)
        if opts.get('stop'):
            raise SystemExit
    eng.report_violation = rv
    t0 = time.time()
    res = eng.run_entry(fid, deadline=time.time() + float(opts.get('dl', 60)))
    print(round(time.time() - t0, 1), 's', {k: res[k] for k in ('paths', 'ended', 'unsupported', 'solver', 'unknown', 'covers')})
    for lab, a in res['asserts'].items():
        print('  ', lab, a)
finally:
    import shutil
    shutil.rmtree(scratch)
