"""Writes /verif/MANIFEST.json from the property table."""
import json
import os

from . import proptable

VERIF = os.path.dirname(os.path.dirname(os.path.abspath(__file__)))

SETUP = ("cd /verif/frontend && GOFLAGS=-mod=mod GOPROXY=off GOSUMDB=off GOTOOLCHAIN=local go build -o /verif/.build/ssa2json . "
         "&& cd /verif && python3-vt -m compileall -q gosmt")

NOTE_COMMON = ("Trusted: the SSA->SMT translator in /verif/gosmt (validated by the self-test and by native replay of every counterexample), "
               "go/ssa v0.29.0, z3 5.1, the stubs listed in the evidence (math rounding, reflect SetCap chain, sync.Pool, go1.23 append growth, amd64 float->int). "
               "Bounds are those in the evidence file; a solver unknown, an unsupported construct or an unwinding failure is reported as INCONCLUSIVE and never as a pass.")


def main():
    props = [json.loads(l) for l in open(os.path.join(VERIF, 'properties.jsonl'))]
    checks = []
    na = []
    for p in props:
        pid = p['id']
        spec = proptable.PROPS.get(pid)
        if spec is None or spec.get('disabled'):
            na.append({'property_id': pid, 'reason': (spec or {}).get('disabled') or 'check not built yet (see DESIGN.md section 10)'})
            continue
        b = spec.get('bounds')
        btxt = b if isinstance(b, str) else 'quick: %s; thorough: %s' % (b.get('quick'), b.get('thorough'))
        checks.append({
            'property_id': pid,
            'quick_cmd': 'bin/check %s quick' % pid,
            'thorough_cmd': 'bin/check %s thorough' % pid,
            'evidence_file': '/verif/evidence/%s.json' % pid,
            'replay_cmd_template': 'bin/check --replay {path}',
            'engine': 'gosmt',
            'level_claimed': {
                'category': 'model_checking',
                'text': spec.get('level_text') or ('Bounded symbolic model checking of the real code: the harness and the pipelined/signal functions it calls are executed symbolically from the go/ssa of the current tree; '
                                                  'every assertion is decided by z3 for all inputs of each feasible path within the bounds (' + btxt + '). Counterexamples are replayed against the native build before being reported.'),
                'design_ref': spec.get('design_ref', 'DESIGN.md section 5, ' + pid),
            },
            'level_note': spec.get('level_note', '') + (' ' if spec.get('level_note') else '') + NOTE_COMMON + ' Outside the claim: ' + '; '.join(spec.get('outside', [])) + '.',
            'technique': spec.get('technique', 'SSA-to-SMT symbolic execution of the real code, z3 decides each assertion over all inputs within the bounds; native replay of models'),
        })
    m = {
        'version': 1,
        'setup_cmd': SETUP,
        'hooks': {'guard': 'none', 'enable': 'no hooks or instrumentation in /repo: harnesses are an external Go package (verifharness) using only the exported API; /repo is read through a go.mod replace directive',
                  'baseline_off_cmd': 'cd /repo && go test -vet=off -count=1 ./...', 'source_commits': [], 'add_only': True},
        'engines': [{'name': 'gosmt', 'path': '/verif/gosmt', 'serves_properties': [c['property_id'] for c in checks],
                     'kind_free_text': 'go/ssa front end (frontend/ssa2json) + Python path-forking symbolic executor over z3 (bit-vectors, floating point, uninterpreted abstraction with exact refinement), native replay harness (harness/)'}],
        'checks': checks,
        'not_applicable': na,
        'notes': 'Every check regenerates the SSA from $SIGNAL_REPO (default /repo) on each run. KNOWN_FINDINGS.json lists genuine defects (fixed: entries are documentation only).',
    }
    json.dump(m, open(os.path.join(VERIF, 'MANIFEST.json'), 'w'), indent=1)
    print('checks:', len(checks), 'not_applicable:', len(na))


if __name__ == '__main__':
    main()
