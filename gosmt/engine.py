"""Path-forking symbolic executor for the go/ssa JSON produced by frontend/ssa2json.

Values
  integers  : python int (mathematical value of the Go type) | z3 BitVecRef (width of the type)
              | IntTerm (value mode, see valuemode.py)
  booleans  : python bool | z3 BoolRef
  floats    : python float (float32 values kept rounded) | z3 FPRef | IntFloat (value mode)
  pointers  : Ptr(obj, path)     nil = Ptr(None, ())
  slices    : SliceV(obj, path, off, len, cap)   nil slice has obj None
  structs / arrays : python tuples
  interfaces: Iface(tid, val) | None
  closures  : Closure(fid, bindings)
  strings   : python str
"""
import json
import math
import struct
import sys
import time

import numpy as np
import z3

from . import growcap

np.seterr(all='ignore')

F64 = z3.Float64()
F32 = z3.Float32()
RNE = z3.RNE()
RTZ = z3.RTZ()


class Unsupported(Exception):
    pass


class PathEnd(Exception):
    """Raised to terminate the current path (status in args[0])."""


class Ptr:
    __slots__ = ('obj', 'path')

    def __init__(self, obj, path=()):
        self.obj = obj
        self.path = path

    def __repr__(self):
        return 'Ptr(%r,%r)' % (self.obj, self.path)


NILPTR = Ptr(None, ())


class SliceV:
    __slots__ = ('obj', 'path', 'off', 'len', 'cap')

    def __init__(self, obj, path, off, ln, cp):
        self.obj = obj
        self.path = path
        self.off = off
        self.len = ln
        self.cap = cp

    def __repr__(self):
        return 'Slice(%r,%r,off=%r,len=%r,cap=%r)' % (self.obj, self.path, self.off, self.len, self.cap)


class Iface:
    __slots__ = ('tid', 'val')

    def __init__(self, tid, val):
        self.tid = tid
        self.val = val


class Closure:
    __slots__ = ('fid', 'bindings')

    def __init__(self, fid, bindings=()):
        self.fid = fid
        self.bindings = bindings


class ReflectV:
    __slots__ = ('kind', 'ptr', 'val')

    def __init__(self, kind, ptr=None, val=None):
        self.kind = kind
        self.ptr = ptr
        self.val = val


class LazyArr:
    """backing array of symbolic size: zero everywhere except the recorded writes (idx, value), newest last"""
    __slots__ = ('writes',)

    def __init__(self, writes=()):
        self.writes = writes

    def __len__(self):
        raise Unsupported('iteration over an array of symbolic size')


class Builtin:
    __slots__ = ('name',)

    def __init__(self, name):
        self.name = name


class Frame:
    __slots__ = ('fn', 'block', 'ip', 'regs', 'prev', 'params', 'fvs', 'catch', 'ret_to', 'defers', 'on_return', 'tag')

    def __init__(self, fn, params, fvs=()):
        self.fn = fn
        self.block = 0
        self.ip = 0
        self.regs = {}
        self.prev = -1
        self.params = params
        self.fvs = fvs
        self.catch = False
        self.ret_to = None      # register name in the caller
        self.defers = None
        self.on_return = None   # python callback name handled by the engine
        self.tag = None

    def clone(self):
        f = Frame.__new__(Frame)
        f.fn = self.fn
        f.block = self.block
        f.ip = self.ip
        f.regs = dict(self.regs)
        f.prev = self.prev
        f.params = self.params
        f.fvs = self.fvs
        f.catch = self.catch
        f.ret_to = self.ret_to
        f.defers = list(self.defers) if self.defers else None
        f.on_return = self.on_return
        f.tag = self.tag
        return f


class State:
    def __init__(self):
        self.frames = []
        self.heap = {}
        self.pc = []
        self.nondet = []       # (name, tid, term)
        self.covers = set()
        self.ghost = {}
        self.loops = {}
        self.ninstr = 0
        self.trace = []        # decisions, for evidence samples
        self.threads = None
        self.defs = []         # definitions of abstracted FP operations (UF application == exact term)
        self.model = None      # a model of pc (or None when unknown)

    def clone(self):
        s = State.__new__(State)
        s.frames = [f.clone() for f in self.frames]
        s.heap = dict(self.heap)
        s.pc = list(self.pc)
        s.nondet = list(self.nondet)
        s.covers = set(self.covers)
        s.ghost = {k: (v.copy() if hasattr(v, 'copy') else v) for k, v in self.ghost.items()}
        s.loops = dict(self.loops)
        s.ninstr = self.ninstr
        s.trace = list(self.trace)
        s.threads = self.threads
        s.defs = list(self.defs)
        s.model = self.model
        return s


# ----------------------------------------------------------------------------
# solver layer


class SolverCtx:
    def __init__(self, timeout_ms=60000, seed=0, logic=None):
        self.s = z3.SolverFor(logic) if logic else z3.Solver()
        self.s.set('timeout', timeout_ms)
        if seed:
            self.s.set('random_seed', seed & 0x7fffffff)
        self.cur = []   # ids of asserted terms, one push level each
        self.stats = {'sat': 0, 'unsat': 0, 'unknown': 0, 'time': 0.0, 'queries': 0}
        self.timeout_ms = timeout_ms
        self.log = None

    def _sync(self, pc):
        n = 0
        m = min(len(self.cur), len(pc))
        while n < m and self.cur[n] == pc[n].get_id():
            n += 1
        if n < len(self.cur):
            self.s.pop(len(self.cur) - n)
            del self.cur[n:]
        for t in pc[n:]:
            self.s.push()
            self.s.add(t)
            self.cur.append(t.get_id())

    def check(self, pc, extra=None):
        """returns 'sat' | 'unsat' | 'unknown'"""
        self._sync(pc)
        t0 = time.time()
        if extra is not None:
            self.s.push()
            self.s.add(extra)
        r = self.s.check()
        dt = time.time() - t0
        self.stats['time'] += dt
        self.stats['queries'] += 1
        res = str(r)
        self.stats[res] += 1
        self._last_extra = extra is not None
        if self.log is not None:
            self.log.append((res, dt))
        return res

    def model(self):
        return self.s.model()

    def done(self):
        if self._last_extra:
            self.s.pop()
            self._last_extra = False

    def export(self, pc, extra=None):
        s2 = z3.Solver()
        for t in pc:
            s2.add(t)
        if extra is not None:
            s2.add(extra)
        return s2.to_smt2()


# ----------------------------------------------------------------------------
# helpers on scalar values


def is_sym(v):
    return isinstance(v, z3.ExprRef)


def wrap(x, bits, signed):
    x &= (1 << bits) - 1
    if signed and x >> (bits - 1):
        x -= 1 << bits
    return x


def f32(x):
    return float(np.float32(x))


def int_to_f32(x):
    n = abs(x)
    k = n.bit_length() - 40
    if k > 0:
        n = (n >> k) | (1 if n & ((1 << k) - 1) else 0)   # sticky bit keeps the single rounding exact
        v = float(n) * float(1 << k)
    else:
        v = float(n)
    return f32(-v if x < 0 else v)


def fbits64(x):
    return struct.unpack('<Q', struct.pack('<d', x))[0]


def fbits32(x):
    return struct.unpack('<I', struct.pack('<f', x))[0]


def from_bits64(b):
    return struct.unpack('<d', struct.pack('<Q', b))[0]


def from_bits32(b):
    return struct.unpack('<f', struct.pack('<I', b))[0]


_fpcache = {}


def fp_term(x, bits):
    """z3 FP numeral for a python float"""
    if is_sym(x):
        return x
    key = (fbits64(x) if x == x else 'nan', bits)
    t = _fpcache.get(key)
    if t is None:
        sort = F64 if bits == 64 else F32
        if x != x:
            t = z3.fpNaN(sort)
        elif bits == 64:
            t = z3.simplify(z3.fpBVToFP(z3.BitVecVal(fbits64(x), 64), sort))
        else:
            t = z3.simplify(z3.fpBVToFP(z3.BitVecVal(fbits32(x), 32), sort))
        _fpcache[key] = t
    return t


def fp_concrete(t, bits):
    """python float for a z3 FP numeral, or None"""
    if not z3.is_fp_value(t):
        return None
    if t.isNaN():
        return float('nan')
    if t.isInf():
        return float('-inf') if t.isNegative() else float('inf')
    b = z3.simplify(z3.fpToIEEEBV(t))
    if not z3.is_bv_value(b):
        return None
    return from_bits64(b.as_long()) if bits == 64 else from_bits32(b.as_long())


def bv(x, bits):
    if is_sym(x):
        return x
    return z3.BitVecVal(x & ((1 << bits) - 1), bits)


def bv_concrete(t, bits, signed):
    if z3.is_bv_value(t):
        return wrap(t.as_long(), bits, signed)
    return None


def simp_int(t, bits, signed):
    if not is_sym(t):
        return t
    t = z3.simplify(t)
    c = bv_concrete(t, bits, signed)
    return t if c is None else c


def simp_bool(t):
    if not is_sym(t):
        return bool(t)
    t = z3.simplify(t)
    if z3.is_true(t):
        return True
    if z3.is_false(t):
        return False
    return t


def simp_fp(t, bits):
    if not is_sym(t):
        return t
    t = z3.simplify(t)
    c = fp_concrete(t, bits)
    return t if c is None else c


RANGES = {}   # z3 ast id of a symbol -> (lo, hi), fixed at creation (vf.IntRange)


def interval(t, bits=64, signed=True):
    """conservative signed interval of an integer value, or None"""
    if not is_sym(t):
        return (t, t)
    if z3.is_bv_value(t):
        v = wrap(t.as_long(), t.size(), signed)
        return (v, v)
    if not z3.is_bv(t):
        return None
    w = t.size()
    lo_t, hi_t = (-(1 << (w - 1)), (1 << (w - 1)) - 1) if signed else (0, (1 << w) - 1)
    k = t.decl().kind()
    if k == z3.Z3_OP_UNINTERPRETED and t.num_args() == 0:
        r = RANGES.get(t.get_id())
        return r if r is not None else (lo_t, hi_t)
    if k in (z3.Z3_OP_BADD, z3.Z3_OP_BMUL, z3.Z3_OP_BSUB):
        ivs = [interval(c, bits, signed) for c in t.children()]
        if any(i is None for i in ivs):
            return None
        lo, hi = ivs[0]
        for (a, b) in ivs[1:]:
            if k == z3.Z3_OP_BADD:
                lo, hi = lo + a, hi + b
            elif k == z3.Z3_OP_BSUB:
                lo, hi = lo - b, hi - a
            else:
                c = (lo * a, lo * b, hi * a, hi * b)
                lo, hi = min(c), max(c)
        if lo < lo_t or hi > hi_t:
            return None
        return (lo, hi)
    if k == z3.Z3_OP_ITE:
        a, b = interval(t.arg(1), bits, signed), interval(t.arg(2), bits, signed)
        if a is None or b is None:
            return None
        return (min(a[0], b[0]), max(a[1], b[1]))
    if k == z3.Z3_OP_SIGN_EXT and signed:
        return interval(t.arg(0), bits, True)
    if k == z3.Z3_OP_ZERO_EXT:
        r = interval(t.arg(0), bits, False)
        return r
    return (lo_t, hi_t)


def static_lt(a, b, signed=True):
    """True/False when a < b is decided by intervals, else None"""
    ia, ib = interval(a, 64, signed), interval(b, 64, signed)
    if ia is None or ib is None:
        return None
    if ia[1] < ib[0]:
        return True
    if ia[0] >= ib[1]:
        return False
    return None


def static_le(a, b, signed=True):
    ia, ib = interval(a, 64, signed), interval(b, 64, signed)
    if ia is None or ib is None:
        return None
    if ia[1] <= ib[0]:
        return True
    if ia[0] > ib[1]:
        return False
    return None


def b_and(a, b):
    if a is True:
        return b
    if b is True:
        return a
    if a is False or b is False:
        return False
    return z3.And(a, b)


def b_or(a, b):
    if a is False:
        return b
    if b is False:
        return a
    if a is True or b is True:
        return True
    return z3.Or(a, b)


def b_not(a):
    if isinstance(a, bool):
        return not a
    return z3.Not(a)


def b_term(a):
    if isinstance(a, bool):
        return z3.BoolVal(a)
    return a


# ----------------------------------------------------------------------------


class Engine:
    def __init__(self, ir, opts=None):
        self.ir = ir
        self.types = ir['types']
        self.funcs = ir['funcs']
        self.opts = opts or {}
        self.solver = SolverCtx(self.opts.get('timeout_ms', 60000), self.opts.get('seed', 0), self.opts.get('logic'))
        self.next_obj = 1
        self.objmeta = {}
        self.nsym = 0
        self.results = None
        self.max_instr = self.opts.get('max_instr', 3_000_000)
        self.loop_limit = self.opts.get('loop_limit', 80)
        self.max_paths = self.opts.get('max_paths', 200000)
        self.conc_limit = self.opts.get('conc_limit', 128)
        self.value_mode = False
        self.vm = None
        self._tcache = {}
        from . import intrinsics, stubs
        self.intr = intrinsics.TABLE
        self.stubs = stubs.TABLE
        self.deadline = None
        self.abstract_fp = bool(self.opts.get('abstract_fp'))
        self.keep = []   # keeps ranged symbols alive so their ast ids stay unique
        RANGES.clear()   # ast ids are only unique while the terms are alive: never carry ranges across engines
        self._ufs = {}

    # ---- FP abstraction (CEGAR): UF first, exact definition on demand -------
    def fpa(self, st, name, exact, *args):
        """returns `exact`, or an uninterpreted application standing for it (definition recorded on the path)"""
        if not self.abstract_fp or st is None:
            return exact
        key = (name,) + tuple(a.sort().sexpr() for a in args) + (exact.sort().sexpr(),)
        f = self._ufs.get(key)
        if f is None:
            f = z3.Function('%s_%d' % (name, len(self._ufs)), *([a.sort() for a in args] + [exact.sort()]))
            self._ufs[key] = f
        app = f(*args)
        st.defs.append(app == exact)
        self.cur_result['abstracted_ops'] = self.cur_result.get('abstracted_ops', 0) + 1
        return app

    # ---- types -----------------------------------------------------------
    def ut(self, tid):
        """underlying type record"""
        t = self._tcache.get(tid)
        if t is None:
            t = self.types[tid]
            while t['k'] == 'named':
                t = self.types[t['under']]
            self._tcache[tid] = t
        return t

    def zero(self, tid):
        t = self.ut(tid)
        k = t['k']
        if k == 'int':
            return 0
        if k == 'float':
            return 0.0
        if k == 'bool':
            return False
        if k == 'string':
            return ''
        if k in ('ptr', 'unsafeptr'):
            return NILPTR
        if k == 'slice':
            return SliceV(None, (), 0, 0, 0)
        if k == 'struct':
            return tuple(self.zero(f['t']) for f in t.get('fields', []))
        if k == 'array':
            z = self.zero(t['elem'])
            return tuple(z for _ in range(t.get('len', 0)))
        if k in ('iface', 'sig', 'map', 'chan', 'nil'):
            return None
        if k == 'tuple':
            return tuple(self.zero(e) for e in t['elems'])
        raise Unsupported('zero value of ' + tid)

    # ---- heap ------------------------------------------------------------
    def new_obj(self, st, val, kind, site=None, elem=None):
        oid = self.next_obj
        self.next_obj += 1
        st.heap[oid] = val
        self.objmeta[oid] = {'kind': kind, 'site': site, 'elem': elem, 'thread': st.ghost.get('cur_thread', 0)}
        return oid

    def merge(self, cond, a, b, tid=None):
        """ite(cond, a, b) for scalar values"""
        if cond is True:
            return a
        if cond is False:
            return b
        if a is b:
            return a
        if isinstance(a, bool) or isinstance(b, bool) or z3.is_bool(a) or z3.is_bool(b):
            return z3.If(cond, b_term(a), b_term(b))
        if self.value_mode:
            r = self.vm.merge(cond, a, b, tid)
            if r is not NotImplemented:
                return r
        if isinstance(a, float) or isinstance(b, float) or z3.is_fp(a) or z3.is_fp(b):
            bits = None
            for x in (a, b):
                if z3.is_fp(x):
                    bits = 64 if x.sort() == F64 else 32
            if bits is None:
                if a == b and math.copysign(1, a) == math.copysign(1, b) or (a != a and b != b):
                    return a
                bits = self.ut(tid)['bits'] if tid else 64
            return z3.If(cond, fp_term(a, bits), fp_term(b, bits))
        if isinstance(a, int) and isinstance(b, int):
            if a == b:
                return a
            if tid is None:
                raise Unsupported('merge of concrete ints without type')
            w = self.ut(tid)['bits']
            return z3.If(cond, bv(a, w), bv(b, w))
        if z3.is_bv(a) or z3.is_bv(b):
            w = a.size() if z3.is_bv(a) else b.size()
            return z3.If(cond, bv(a, w), bv(b, w))
        if isinstance(a, tuple) and isinstance(b, tuple) and len(a) == len(b):
            return tuple(self.merge(cond, x, y) for x, y in zip(a, b))
        raise Unsupported('merge of %r / %r' % (type(a), type(b)))

    def root_type(self, oid):
        m = self.objmeta[oid]
        if m['kind'] in ('make', 'append', 'lazy'):
            return ('arr', m['elem'])
        return m['elem']

    def child_type(self, td, p):
        if td is None:
            return None
        if isinstance(td, tuple):
            return td[1]
        t = self.ut(td)
        if t['k'] == 'struct':
            return t['fields'][p]['t'] if isinstance(p, int) else None
        if t['k'] == 'array':
            return t['elem']
        return None

    def _get(self, v, path, td):
        for i, p in enumerate(path):
            ct = self.child_type(td, p)
            if isinstance(v, LazyArr):
                if path[i + 1:]:
                    raise Unsupported('nested access into lazy array')
                r = self.zero(ct)
                for (q, val) in v.writes:
                    same = (p == q) if not (is_sym(p) or is_sym(q)) else simp_bool(bv(p, 64) == bv(q, 64))
                    r = self.merge(same, val, r, ct)
                return r
            if isinstance(p, int):
                if p < 0 or p >= len(v):
                    raise Unsupported('internal: heap index %d outside object of %d cells' % (p, len(v)))
                v = v[p]
                td = ct
            else:
                rest = path[i + 1:]
                w = p.size()
                if len(v) == 0:
                    raise Unsupported('internal: symbolic index into empty object')
                cells = [self._get(c, rest, ct) for c in v]
                ft = ct
                for q in rest:
                    ft = self.child_type(ft, q)
                r = cells[-1]
                for k in range(len(cells) - 2, -1, -1):
                    r = self.merge(p == z3.BitVecVal(k, w), cells[k], r, ft)
                return r
        return v

    def _set(self, v, path, new, td, guard=True):
        if not path:
            if guard is True:
                return new
            return self.merge(guard, new, v, td)
        p = path[0]
        ct = self.child_type(td, p)
        if isinstance(v, LazyArr):
            if len(path) > 1 or guard is not True:
                raise Unsupported('nested/guarded store into lazy array')
            return LazyArr(v.writes + ((p, new),))
        if isinstance(p, int):
            if p < 0 or p >= len(v):
                raise Unsupported('internal: heap index %d outside object of %d cells' % (p, len(v)))
            lst = list(v)
            lst[p] = self._set(v[p], path[1:], new, ct, guard)
            return tuple(lst)
        w = p.size()
        lst = list(v)
        for k in range(len(lst)):
            g = b_and(guard, p == z3.BitVecVal(k, w))
            lst[k] = self._set(v[k], path[1:], new, ct, g)
        return tuple(lst)

    def load(self, st, ptr):
        if ptr.obj is None:
            self.do_panic(st, 'runtime error: invalid memory address or nil pointer dereference')
        self.log_access(st, ptr, False)
        return self._get(st.heap[ptr.obj], ptr.path, self.root_type(ptr.obj))

    def store(self, st, ptr, val):
        if ptr.obj is None:
            self.do_panic(st, 'runtime error: invalid memory address or nil pointer dereference')
        self.log_access(st, ptr, True)
        st.heap[ptr.obj] = self._set(st.heap[ptr.obj], ptr.path, val, self.root_type(ptr.obj))

    def log_access(self, st, ptr, write):
        al = st.ghost.get('access')
        if al is not None:
            al.append((st.ghost.get('cur_thread', 0), ptr.obj, ptr.path, write, self.cur_pos(st)))

    def cur_pos(self, st):
        if not st.frames:
            return ''
        f = st.frames[-1]
        try:
            ins = f.fn['blocks'][f.block]['instrs'][max(f.ip - 1, 0)]
            return ins.get('pos', f.fn['name'])
        except Exception:
            return f.fn['name']

    # ---- solver interaction ---------------------------------------------
    def feasible(self, st, cond):
        r = self.solver.check(st.pc, cond)
        self.solver.done()
        if r == 'unknown':
            self.note_unknown(st, 'branch')
            return True   # keep the branch (over-approximation); assertion results on it need replay anyway
        return r == 'sat'

    def note_unknown(self, st, what):
        self.cur_result['unknown'].append({'what': what, 'pos': self.cur_pos(st)})

    def model_says(self, st, cond):
        """True/False if the cached model of st.pc decides cond, else None"""
        m = st.model
        if m is None:
            return None
        try:
            v = m.eval(cond, model_completion=True)
        except z3.Z3Exception:
            return None
        if z3.is_true(v):
            return True
        if z3.is_false(v):
            return False
        return None

    def feasible_m(self, st, cond):
        """feasibility with model capture: returns (bool, model|None)"""
        r = self.solver.check(st.pc, cond)
        m = None
        if r == 'sat':
            m = self.solver.model()
        self.solver.done()
        if r == 'unknown':
            self.note_unknown(st, 'branch')
            return True, None
        return r == 'sat', m

    def decide(self, st, cond):
        """returns list of (bool_value, state) continuations for a boolean value"""
        cond = simp_bool(cond)
        if isinstance(cond, bool):
            return [(cond, st)]
        ncond = z3.Not(cond)
        hint = self.model_says(st, cond)
        if hint is True:
            f_ok, fm = self.feasible_m(st, ncond)
            if not f_ok:
                return [(True, st)]
            s2 = st.clone()
            st.pc.append(cond)
            s2.pc.append(ncond)
            s2.model = fm
            return [(True, st), (False, s2)]
        if hint is False:
            t_ok, tm = self.feasible_m(st, cond)
            if not t_ok:
                return [(False, st)]
            s2 = st.clone()       # s2 takes the False side and keeps the old model
            st.pc.append(cond)
            st.model = tm
            s2.pc.append(ncond)
            return [(True, st), (False, s2)]
        t_ok, tm = self.feasible_m(st, cond)
        if not t_ok:
            return [(False, st)]
        f_ok, fm = self.feasible_m(st, ncond)
        if not f_ok:
            st.model = tm
            return [(True, st)]
        s2 = st.clone()
        st.pc.append(cond)
        st.model = tm
        s2.pc.append(ncond)
        s2.model = fm
        return [(True, st), (False, s2)]

    def concretize(self, st, v, bits, signed, limit=None, what='value'):
        """returns list of (python int, state)"""
        v = simp_int(v, bits, signed)
        if not is_sym(v):
            return [(v, st)]
        if self.value_mode and self.vm.is_term(v):
            return self.vm.concretize(self, st, v, bits, signed, limit, what)
        limit = limit or self.conc_limit
        vals = []
        block = []
        while True:
            extra = z3.And(*block) if block else None
            r = self.solver.check(st.pc, extra)
            if r == 'sat':
                m = self.solver.model()
                c = m.eval(v, model_completion=True)
                self.solver.done()
                cv = c.as_long()
                vals.append(cv)
                block.append(v != c)
                if len(vals) > limit:
                    raise Unsupported('concretize: more than %d values for %s at %s' % (limit, what, self.cur_pos(st)))
            else:
                self.solver.done()
                if r == 'unknown':
                    self.note_unknown(st, 'concretize')
                break
        vals.sort()
        out = []
        for i, cv in enumerate(vals):
            s2 = st if i == len(vals) - 1 else st.clone()
            s2.pc.append(v == z3.BitVecVal(cv, bits))
            s2.model = None
            out.append((wrap(cv, bits, signed), s2))
        return out

    # ---- running ---------------------------------------------------------
    def run_entry(self, fid, deadline=None):
        fn = self.funcs[fid]
        self.deadline = deadline
        self.cur_result = {
            'entry': fid, 'paths': 0, 'instrs': 0, 'asserts': {}, 'covers': {}, 'violations': [],
            'unsupported': [], 'unknown': [], 'unwinding_failures': 0, 'panics': 0, 'samples': [],
            'ended': {}, 'max_loop': 0, 'witnesses': [],
        }
        st = State()
        st.frames.append(Frame(fn, []))
        self.worklist = [st]
        while self.worklist:
            s = self.worklist.pop()
            if self.cur_result['paths'] >= self.max_paths:
                self.cur_result['unsupported'].append('path limit reached')
                break
            if self.deadline and time.time() > self.deadline:
                self.cur_result['unsupported'].append('time limit reached')
                break
            self.run_path(s)
        self.cur_result['solver'] = dict(self.solver.stats)
        return self.cur_result

    def end_path(self, st, status):
        if status == 'pruned':
            return
        r = self.cur_result
        r['paths'] += 1
        r['instrs'] += st.ninstr
        r['ended'][status] = r['ended'].get(status, 0) + 1
        for c in st.covers:
            r['covers'][c] = r['covers'].get(c, 0) + 1
        if status == 'ok' and len(r['witnesses']) < self.opts.get('witnesses', 2) and not st.ghost.get('no_witness'):
            # a concrete input that drives the real build down this very path (translator validation by native replay)
            res = self.solver.check(st.pc + st.defs)
            if res == 'sat':
                m = self.solver.model()
                try:
                    vals = [{'name': n, 'bits': str(self.model_bits(m, term, tid))} for n, tid, term in st.nondet]
                    r['witnesses'].append({'values': vals, 'covers': sorted(c for c in st.covers if not c.startswith('@')),
                                           'choices': list(st.ghost.get('choices', []))})
                except Exception:
                    pass
            self.solver.done()
        if len(r['samples']) < 3 and status == 'ok':
            r['samples'].append({'decisions': st.trace[-12:], 'nondet': [n for n, _, _ in st.nondet][:12],
                                 'instrs': st.ninstr, 'covers': sorted(st.covers)})

    def run_path(self, st):
        try:
            while True:
                if not st.frames:
                    self.end_path(st, 'ok')
                    return
                self.step(st)
        except PathEnd as e:
            self.end_path(st, e.args[0])
        except Unsupported as e:
            self.cur_result['unsupported'].append(str(e))
            self.end_path(st, 'unsupported')

    def fork(self, states):
        """continue with states[0] in place; queue others"""
        for s in states[1:]:
            self.worklist.append(s)

    def val(self, st, fr, o):
        if 'r' in o:
            return fr.regs[o['r']]
        if 'c' in o:
            return self.const(o['c'])
        if 'p' in o:
            return fr.params[o['p']]
        if 'fv' in o:
            return fr.fvs[o['fv']]
        if 'fn' in o:
            return Closure(o['fn'])
        if 'b' in o:
            return Builtin(o['b'])
        if 'g' in o:
            return self.global_ptr(st, o['g'])
        raise Unsupported('operand %r' % o)

    def global_ptr(self, st, name):
        g = st.ghost.setdefault('globals', {})
        if name not in g:
            tid = self.ir['globals'][name]
            el = self.ut(tid)['elem']
            g[name] = self.new_obj(st, self.zero(el), 'global', name)
        return Ptr(g[name], ())

    def const(self, c):
        if 'int' in c:
            return int(c['int'])
        if 'fbits' in c:
            t = self.ut(c['t'])
            b = int(c['fbits'])
            return from_bits64(b) if t['bits'] == 64 else from_bits32(b)
        if 'bool' in c:
            return c['bool']
        if 'str' in c:
            return c['str']
        if 'nil' in c:
            return self.zero(c['t'])
        raise Unsupported('constant %r' % c)

    def step(self, st):
        fr = st.frames[-1]
        blk = fr.fn['blocks'][fr.block]
        ins = blk['instrs'][fr.ip]
        fr.ip += 1
        st.ninstr += 1
        if st.ninstr > self.max_instr:
            self.cur_result['unwinding_failures'] += 1
            raise PathEnd('instr-limit')
        getattr(self, 'op_' + ins['op'])(st, fr, ins)

    def goto(self, st, fr, target, symbolic=False):
        if symbolic:
            key = (len(st.frames), fr.fn['name'], target)
            n = st.loops.get(key, 0) + 1
            st.loops[key] = n
            if n > self.cur_result['max_loop']:
                self.cur_result['max_loop'] = n
            if n > self.loop_limit:
                self.cur_result['unwinding_failures'] += 1
                raise PathEnd('unwind-limit')
        fr.prev = fr.block
        fr.block = target
        fr.ip = 0

    # ---- instructions ------------------------------------------------------
    def op_Jump(self, st, fr, ins):
        self.goto(st, fr, fr.fn['blocks'][fr.block]['succs'][0])

    def op_If(self, st, fr, ins):
        c = self.val(st, fr, ins['x'])
        succs = fr.fn['blocks'][fr.block]['succs']
        outs = self.decide(st, c)
        symbolic = len(outs) > 1
        conts = []
        for b, s in outs:
            if symbolic:
                s.trace.append('%s:%s' % (ins.get('pos', fr.fn['name']).split('/')[-1], 'T' if b else 'F'))
            try:
                self.goto(s, s.frames[-1], succs[0] if b else succs[1], symbolic)
                conts.append(s)
            except PathEnd as e:
                self.end_path(s, e.args[0])
        self.fork_from(st, conts)

    def op_Phi(self, st, fr, ins):
        # evaluate all phis of the block simultaneously
        blk = fr.fn['blocks'][fr.block]
        preds = blk['preds']
        k = preds.index(fr.prev)
        i = fr.ip - 1
        vals = []
        while i < len(blk['instrs']) and blk['instrs'][i]['op'] == 'Phi':
            p = blk['instrs'][i]
            vals.append((p['reg'], self.val(st, fr, p['edges'][k])))
            i += 1
        for r, v in vals:
            fr.regs[r] = v
        st.ninstr += len(vals) - 1
        fr.ip = i

    def op_Return(self, st, fr, ins):
        rs = [self.val(st, fr, r) for r in ins['results']]
        if fr.defers:
            raise Unsupported('return with pending defers')
        self.do_return(st, rs)

    def do_return(self, st, rs):
        fr = st.frames.pop()
        if len(rs) == 0:
            v = None
        elif len(rs) == 1:
            v = rs[0]
        else:
            v = tuple(rs)
        if fr.on_return is not None:
            fr.on_return(self, st, fr, v)
            return
        if st.frames and fr.ret_to is not None:
            st.frames[-1].regs[fr.ret_to] = v

    def _immediate(self, fv):
        """the callee is executed by the engine itself (builtin, intrinsic, stub) instead of getting a frame"""
        if isinstance(fv, Builtin):
            return True
        if not isinstance(fv, Closure):
            return True
        fn = self.funcs[fv.fid]
        name = fn['origin'] or fn['name']
        if name in self.intr or name in self.stubs:
            return True
        if fn['external']:
            from . import stubs as _stubs
            return _stubs.resolve(fn['name']) is not None or True
        return False

    def op_RunDefers(self, st, fr, ins):
        if not fr.defers:
            return
        fv, args = fr.defers[-1]
        fake = {'op': 'Call', 'pos': ins.get('pos', '')}
        if self._immediate(fv):
            # a scheduling point inside the stub rewinds to this RunDefers with the defer still pending
            self.call(st, fv, args, fake)
            fr.defers.pop()
            fr.ip -= 1          # come back for the remaining deferred calls
        else:
            fr.defers.pop()
            fr.ip -= 1
            self.call(st, fv, args, fake)

    def op_Defer(self, st, fr, ins):
        if 'invoke' in ins:
            raise Unsupported('defer of an interface method call')
        fv = self.val(st, fr, ins['fnv'])
        args = [self.val(st, fr, a) for a in ins['args']]
        if fr.defers is None:
            fr.defers = []
        fr.defers.append((fv, args))

    def op_Go(self, st, fr, ins):
        raise Unsupported('go statement at ' + ins.get('pos', '?'))

    def op_Panic(self, st, fr, ins):
        v = self.val(st, fr, ins['x'])
        msg = v.val if isinstance(v, Iface) and isinstance(v.val, str) else 'panic'
        self.do_panic(st, msg)

    def do_panic(self, st, msg):
        """unwind to the nearest catch frame; raises to leave the current instruction"""
        while st.frames:
            fr = st.frames.pop()
            if fr.defers:
                raise Unsupported('panic through frame with defers')
            if fr.catch:
                # vf.Panics: result true in the caller
                st.frames[-1].regs[fr.ret_to] = True
                st.ghost['last_panic'] = msg
                raise _Resume()
        st.ghost['panic'] = msg
        self.cur_result['panics'] += 1
        self.report_violation(st, 'unexpected-panic', None, extra_text=str(msg))
        raise PathEnd('panic')

    def op_Alloc(self, st, fr, ins):
        el = self.ut(ins['t'])['elem']
        oid = self.new_obj(st, self.zero(el), 'alloc', ins.get('pos') or ins.get('comment'), el)
        if ins.get('heap'):
            if ins.get('comment') == 'varargs':
                # the argument array of a variadic call: not materialised for the append builtin,
                # counted when it is passed to a real function (see call())
                if st.ghost.get('allocs') is not None:
                    st.ghost.setdefault('varargs', set()).add(oid)
            else:
                self.count_alloc(st, 'Alloc', ins)
        fr.regs[ins['reg']] = Ptr(oid, ())

    def count_alloc(self, st, kind, ins):
        g = st.ghost.get('allocs')
        if g is not None:
            g.append((kind, ins.get('pos', ''), ins.get('comment', '')))

    def op_FieldAddr(self, st, fr, ins):
        p = self.val(st, fr, ins['x'])
        if p.obj is None:
            self.do_panic(st, 'runtime error: invalid memory address or nil pointer dereference')
        fr.regs[ins['reg']] = Ptr(p.obj, p.path + (ins['field'],))

    def op_Field(self, st, fr, ins):
        v = self.val(st, fr, ins['x'])
        fr.regs[ins['reg']] = v[ins['field']]

    def op_Extract(self, st, fr, ins):
        fr.regs[ins['reg']] = self.val(st, fr, ins['x'])[ins['index']]

    def op_Store(self, st, fr, ins):
        self.store(st, self.val(st, fr, ins['addr']), self.val(st, fr, ins['val']))

    def op_MakeInterface(self, st, fr, ins):
        fr.regs[ins['reg']] = Iface(ins['xt'], self.val(st, fr, ins['x']))
        g = st.ghost.get('allocs')
        if g is not None:
            t = self.ut(ins['xt'])
            if t['k'] not in ('ptr', 'sig', 'map', 'chan', 'unsafeptr') and 'c' not in ins['x']:
                g.append(('MakeInterface', ins.get('pos', ''), ins['xt']))

    def op_ChangeInterface(self, st, fr, ins):
        fr.regs[ins['reg']] = self.val(st, fr, ins['x'])

    def op_ChangeType(self, st, fr, ins):
        fr.regs[ins['reg']] = self.val(st, fr, ins['x'])

    def op_MakeClosure(self, st, fr, ins):
        fn = ins['fn']['fn']
        b = tuple(self.val(st, fr, x) for x in ins['bindings'])
        fr.regs[ins['reg']] = Closure(fn, b)
        if b:
            self.count_alloc(st, 'MakeClosure', ins)

    def op_TypeAssert(self, st, fr, ins):
        v = self.val(st, fr, ins['x'])
        if ins['to_iface']:
            at = self.ut(ins['asserted'])
            ok = v is not None
            if ok and self.types[ins['asserted']]['str'] not in ('any', 'interface{}'):
                raise Unsupported('type assertion to non-empty interface')
            res = v
        else:
            ok = v is not None and v.tid == ins['asserted']
            res = v.val if ok else self.zero(ins['asserted'])
        if ins['commaok']:
            fr.regs[ins['reg']] = (res, ok)
        else:
            if not ok:
                self.do_panic(st, 'interface conversion')
            fr.regs[ins['reg']] = res

    def op_MakeSlice(self, st, fr, ins):
        ln = self.val(st, fr, ins['len'])
        cp = self.val(st, fr, ins['cap'])
        el = self.ut(ins['t'])['elem']
        lim = self.opts.get('max_make', 8192)
        # Go: panics if len < 0, cap < len (cap out of range), or too large
        if is_sym(ln) or is_sym(cp):
            lnb, cpb = bv(ln, 64), bv(cp, 64)
            bad = z3.Or(lnb < 0, cpb < lnb, z3.UGT(cpb, z3.BitVecVal(1 << 40, 64)))
            outs = self.decide(st, bad)
            conts = []
            for b, s in outs:
                if b:
                    try:
                        self.do_panic(s, 'runtime error: makeslice: len/cap out of range')
                    except _Resume:
                        conts.append(s)
                    except PathEnd as e:
                        self.end_path(s, e.args[0])
                    continue
                if self.opts.get('lazy_make'):
                    oid = self.new_obj(s, LazyArr(), 'lazy', ins.get('pos'), el)
                    self.count_alloc(s, 'MakeSlice', ins)
                    s.frames[-1].regs[ins['reg']] = SliceV(oid, (), 0, ln, cp)
                    conts.append(s)
                    continue
                for cv, s2 in self.concretize(s, cp, 64, True, what='make cap'):
                    for lv, s3 in self.concretize(s2, ln, 64, True, what='make len'):
                        self._makeslice(s3, ins, el, lv, cv, lim)
                        conts.append(s3)
            self.fork_from(st, conts)
            return
        if ln < 0 or cp < ln:
            self.do_panic(st, 'runtime error: makeslice: len/cap out of range')
        self._makeslice(st, ins, el, ln, cp, lim)

    def _makeslice(self, st, ins, el, ln, cp, lim):
        if cp > lim:
            raise Unsupported('make with capacity %d > model limit %d' % (cp, lim))
        z = self.zero(el)
        oid = self.new_obj(st, tuple(z for _ in range(cp)), 'make', ins.get('pos'), el)
        if cp > 0:
            self.count_alloc(st, 'MakeSlice', ins)
        st.frames[-1].regs[ins['reg']] = SliceV(oid, (), 0, ln, cp)

    def fork_from(self, st, conts):
        """conts: states to continue (st may or may not be among them)"""
        others = [s for s in conts if s is not st]
        for s in others:
            self.worklist.append(s)
        if not any(s is st for s in conts):
            raise PathEnd('pruned')

    def op_IndexAddr(self, st, fr, ins):
        x = self.val(st, fr, ins['x'])
        idx = self.val(st, fr, ins['index'])
        it = self.ut(ins['it'])
        xt = self.ut(ins['xt'])
        idx = self.to_int64(idx, it)
        if xt['k'] == 'slice':
            ok = self.in_bounds(idx, x.len)
            self.guard_panic(st, ok, 'runtime error: index out of range')
            fr = st.frames[-1]
            pos = self.iadd(x.off, idx)
            if x.obj is None:
                self.do_panic(st, 'runtime error: index out of range')
            fr.regs[ins['reg']] = Ptr(x.obj, x.path + (pos,))
        elif xt['k'] == 'ptr':
            n = self.ut(xt['elem']).get('len', 0)
            ok = self.in_bounds(idx, n)
            self.guard_panic(st, ok, 'runtime error: index out of range')
            fr = st.frames[-1]
            fr.regs[ins['reg']] = Ptr(x.obj, x.path + (idx,))
        else:
            raise Unsupported('IndexAddr on ' + xt['k'])

    def op_Index(self, st, fr, ins):
        x = self.val(st, fr, ins['x'])
        idx = self.val(st, fr, ins['index'])
        xt = self.ut(ins['xt'])
        if xt['k'] != 'array':
            raise Unsupported('Index on ' + xt['k'])
        idx = simp_int(idx, 64, True)
        ok = self.in_bounds(idx, xt.get('len', 0))
        self.guard_panic(st, ok, 'runtime error: index out of range')
        st.frames[-1].regs[ins['reg']] = self._get(x, (idx,), ins['xt'])

    def to_int64(self, v, t):
        """index/shift operands of any integer type -> 64-bit signed domain value"""
        if not is_sym(v):
            return v
        w = t['bits']
        if w == 64:
            return v
        return z3.SignExt(64 - w, v) if t['signed'] else z3.ZeroExt(64 - w, v)

    def in_bounds(self, idx, n):
        """0 <= idx < n as bool value (n is a length, never negative)"""
        if not is_sym(idx) and not is_sym(n):
            return 0 <= idx < n
        ii, ni = interval(idx), interval(n)
        if ii is not None and ni is not None:
            if ii[0] >= 0 and ii[1] < ni[0]:
                return True
            if ii[1] < 0 or ii[0] >= ni[1]:
                return False
        return simp_bool(z3.ULT(bv(idx, 64), bv(n, 64)))

    def iadd(self, a, b):
        if not is_sym(a) and not is_sym(b):
            return a + b
        if not is_sym(a) and a == 0:
            return b
        if not is_sym(b) and b == 0:
            return a
        return simp_int(bv(a, 64) + bv(b, 64), 64, True)

    def isub(self, a, b):
        if not is_sym(a) and not is_sym(b):
            return a - b
        if not is_sym(b) and b == 0:
            return a
        return simp_int(bv(a, 64) - bv(b, 64), 64, True)

    def guard_panic(self, st, ok, msg):
        """continue on st only if ok; fork a panicking path when not-ok is feasible."""
        ok = simp_bool(ok)
        if ok is True:
            return
        if ok is False:
            self.do_panic(st, msg)
        outs = self.decide(st, ok)
        if len(outs) == 1:
            if outs[0][0]:
                return
            self.do_panic(st, msg)
        for b, s in outs:
            if not b:
                self._panic_branch(s, msg)

    def _panic_branch(self, s, msg):
        try:
            self.do_panic(s, msg)
        except _Resume:
            self.worklist.append(s)
        except PathEnd as e:
            self.end_path(s, e.args[0])

    def op_Slice(self, st, fr, ins):
        x = self.val(st, fr, ins['x'])
        xt = self.ut(ins['xt'])
        lo = self.val(st, fr, ins['low']) if 'low' in ins else 0
        hi = self.val(st, fr, ins['high']) if 'high' in ins else None
        mx = self.val(st, fr, ins['max']) if 'max' in ins else None
        if xt['k'] == 'slice':
            base_obj, base_path, off, ln, cp = x.obj, x.path, x.off, x.len, x.cap
        elif xt['k'] == 'ptr':
            n = self.ut(xt['elem']).get('len', 0)
            if x.obj is None:
                self.do_panic(st, 'nil array pointer')
            base_obj, base_path, off, ln, cp = x.obj, x.path, 0, n, n
        else:
            raise Unsupported('Slice of ' + xt['k'])
        if hi is None:
            hi = ln
        top = cp if mx is None else mx
        # 0 <= lo <= hi <= top <= cap
        conds = [self.ule(lo, hi), self.ule(hi, top)]
        if mx is not None:
            conds.append(self.ule(mx, cp))
        ok = True
        for c in conds:
            ok = b_and(ok, c)
        self.guard_panic(st, ok, 'runtime error: slice bounds out of range')
        fr = st.frames[-1]
        fr.regs[ins['reg']] = SliceV(base_obj, base_path, self.iadd(off, lo), self.isub(hi, lo), self.isub(top, lo))

    def ule(self, a, b):
        """0 <= a <= b for int values where b is known non-negative (len/cap) or checked by chain"""
        if not is_sym(a) and not is_sym(b):
            return 0 <= a <= b
        r1, r2 = static_le(0, a), static_le(a, b)
        if r1 is False or r2 is False:
            return False
        if r1 is True and r2 is True:
            return True
        a64, b64 = bv(a, 64), bv(b, 64)
        return simp_bool(z3.And(a64 >= 0, a64 <= b64))

    # ---- arithmetic ---------------------------------------------------------
    def op_BinOp(self, st, fr, ins):
        x = self.val(st, fr, ins['x'])
        y = self.val(st, fr, ins['y'])
        tok = ins['tok']
        xt = self.ut(ins['xt'])
        k = xt['k']
        if self.value_mode:
            r = self.vm.binop(self, st, tok, x, y, xt, self.ut(ins['yt']), ins)
            if r is not NotImplemented:
                st.frames[-1].regs[ins['reg']] = r
                return
        if k == 'int':
            r = self.int_binop(st, tok, x, y, xt, self.ut(ins['yt']))
        elif k == 'float':
            r = self.float_binop(tok, x, y, xt['bits'], st)
        elif k == 'bool':
            if tok == '==':
                r = simp_bool(b_term(x) == b_term(y)) if (is_sym(x) or is_sym(y)) else x == y
            elif tok == '!=':
                r = simp_bool(b_term(x) != b_term(y)) if (is_sym(x) or is_sym(y)) else x != y
            else:
                raise Unsupported('bool op ' + tok)
        elif k == 'string':
            if is_sym(x) or is_sym(y):
                raise Unsupported('symbolic string')
            r = {'==': x == y, '!=': x != y, '+': x + y if tok == '+' else None, '<': x < y}.get(tok)
            if r is None:
                raise Unsupported('string op ' + tok)
        elif k in ('ptr', 'unsafeptr'):
            same = self.ptr_eq(x, y)
            r = same if tok == '==' else b_not(same)
        elif k in ('iface',):
            same = self.iface_eq(x, y)
            r = same if tok == '==' else b_not(same)
        elif k in ('slice', 'sig', 'map', 'chan'):
            # only comparison with nil is legal Go
            def isnil(v):
                return v.obj is None if isinstance(v, SliceV) else v is None
            if not (isnil(x) or isnil(y)):
                raise Unsupported('comparison of two non-nil ' + k)
            r = isnil(x) and isnil(y)
            if tok == '!=':
                r = not r
        elif k == 'struct' or k == 'array':
            eq = self.deep_eq(x, y)
            r = eq if tok == '==' else b_not(eq)
        else:
            raise Unsupported('BinOp on ' + k)
        st.frames[-1].regs[ins['reg']] = r

    def deep_eq(self, x, y):
        if isinstance(x, tuple):
            r = True
            for a, b in zip(x, y):
                r = b_and(r, self.deep_eq(a, b))
            return r
        if isinstance(x, Ptr):
            return self.ptr_eq(x, y)
        if isinstance(x, bool) and isinstance(y, bool):
            return x == y
        if isinstance(x, (int, float)) and isinstance(y, (int, float)):
            return x == y
        if z3.is_fp(x) or z3.is_fp(y):
            bits = 64 if (x if z3.is_fp(x) else y).sort() == F64 else 32
            return simp_bool(z3.fpEQ(fp_term(x, bits), fp_term(y, bits)))
        if z3.is_bv(x) or z3.is_bv(y):
            w = (x if z3.is_bv(x) else y).size()
            return simp_bool(bv(x, w) == bv(y, w))
        if z3.is_bool(x) or z3.is_bool(y):
            return simp_bool(b_term(x) == b_term(y))
        raise Unsupported('deep_eq')

    def ptr_eq(self, x, y):
        if x.obj is None or y.obj is None:
            return x.obj is None and y.obj is None
        if x.obj != y.obj or len(x.path) != len(y.path):
            return False
        r = True
        for a, b in zip(x.path, y.path):
            if is_sym(a) or is_sym(b):
                r = b_and(r, simp_bool(bv(a, 64) == bv(b, 64)))
            elif a != b:
                return False
        return r

    def iface_eq(self, x, y):
        if x is None or y is None:
            return x is None and y is None
        if x.tid != y.tid:
            return False
        if isinstance(x.val, Ptr):
            return self.ptr_eq(x.val, y.val)
        if isinstance(x.val, (int, str, bool, float)) and isinstance(y.val, (int, str, bool, float)):
            return x.val == y.val
        raise Unsupported('interface comparison')

    def int_binop(self, st, tok, x, y, xt, yt):
        w, sg = xt['bits'], xt['signed']
        if tok in ('<<', '>>'):
            return self.shift(st, tok, x, y, xt, yt)
        if not is_sym(x) and not is_sym(y):
            if tok == '+':
                return wrap(x + y, w, sg)
            if tok == '-':
                return wrap(x - y, w, sg)
            if tok == '*':
                return wrap(x * y, w, sg)
            if tok in ('/', '%'):
                if y == 0:
                    self.do_panic(st, 'runtime error: integer divide by zero')
                q = abs(x) // abs(y)
                if (x < 0) != (y < 0):
                    q = -q
                if tok == '/':
                    return wrap(q, w, sg)
                return wrap(x - q * y, w, sg)
            if tok == '&':
                return wrap(x & y, w, sg)
            if tok == '|':
                return wrap(x | y, w, sg)
            if tok == '^':
                return wrap(x ^ y, w, sg)
            if tok == '&^':
                return wrap(x & ~y, w, sg)
            if tok == '==':
                return x == y
            if tok == '!=':
                return x != y
            if tok == '<':
                return x < y
            if tok == '<=':
                return x <= y
            if tok == '>':
                return x > y
            if tok == '>=':
                return x >= y
            raise Unsupported('int op ' + tok)
        a, b = bv(x, w), bv(y, w)
        if tok == '+':
            r = a + b
        elif tok == '-':
            r = a - b
        elif tok == '*':
            r = a * b
        elif tok in ('/', '%'):
            self.guard_panic(st, simp_bool(b != 0), 'runtime error: integer divide by zero')
            if sg:
                r = a / b if tok == '/' else z3.SRem(a, b)
            else:
                r = z3.UDiv(a, b) if tok == '/' else z3.URem(a, b)
        elif tok == '&':
            r = a & b
        elif tok == '|':
            r = a | b
        elif tok == '^':
            r = a ^ b
        elif tok == '&^':
            r = a & ~b
        elif tok == '==':
            return simp_bool(a == b)
        elif tok == '!=':
            return simp_bool(a != b)
        elif tok in ('<', '<=', '>', '>='):
            st_r = {'<': static_lt(x, y, sg), '<=': static_le(x, y, sg), '>': static_lt(y, x, sg), '>=': static_le(y, x, sg)}[tok]
            if st_r is not None:
                return st_r
            if tok == '<':
                return simp_bool(a < b if sg else z3.ULT(a, b))
            if tok == '<=':
                return simp_bool(a <= b if sg else z3.ULE(a, b))
            if tok == '>':
                return simp_bool(a > b if sg else z3.UGT(a, b))
            return simp_bool(a >= b if sg else z3.UGE(a, b))
        else:
            raise Unsupported('int op ' + tok)
        return simp_int(r, w, sg)

    def shift(self, st, tok, x, y, xt, yt):
        w, sg = xt['bits'], xt['signed']
        yw, ysg = yt['bits'], yt['signed']
        if ysg:
            neg = (y < 0) if not is_sym(y) else simp_bool(y < 0)
            self.guard_panic(st, b_not(neg), 'runtime error: negative shift amount')
        if not is_sym(x) and not is_sym(y):
            if tok == '<<':
                return wrap(x << y, w, sg) if y < w else 0
            if y >= w:
                return (-1 if x < 0 else 0) if sg else 0
            return wrap(x >> y, w, sg)
        a = bv(x, w)
        c = bv(y, yw)
        # bring the count to width w, saturating
        if yw > w:
            big = z3.UGE(c, z3.BitVecVal(w, yw))
            c2 = z3.Extract(w - 1, 0, c)
            c2 = z3.If(big, z3.BitVecVal(w, w) if w > 6 else z3.BitVecVal((1 << w) - 1, w), c2)
        elif yw < w:
            c2 = z3.ZeroExt(w - yw, c)
        else:
            c2 = c
        if tok == '<<':
            r = a << c2
        else:
            r = (a >> c2) if sg else z3.LShR(a, c2)
        return simp_int(r, w, sg)

    def float_binop(self, tok, x, y, bits, st=None):
        if not is_sym(x) and not is_sym(y):
            if tok in ('+', '-', '*', '/'):
                a, b = np.float64(x), np.float64(y)
                r = {'+': a + b, '-': a - b, '*': a * b}.get(tok)
                if tok == '/':
                    r = a / b
                r = float(r)
                return f32(r) if bits == 32 else r
            return {'==': x == y, '!=': x != y, '<': x < y, '<=': x <= y, '>': x > y, '>=': x >= y}[tok]
        a, b = fp_term(x, bits), fp_term(y, bits)
        if tok == '+':
            return self.fpa(st, 'fadd', simp_fp(z3.fpAdd(RNE, a, b), bits), a, b)
        if tok == '-':
            return self.fpa(st, 'fsub', simp_fp(z3.fpSub(RNE, a, b), bits), a, b)
        if tok == '*':
            return self.fpa(st, 'fmul', simp_fp(z3.fpMul(RNE, a, b), bits), a, b)
        if tok == '/':
            return self.fpa(st, 'fdiv', simp_fp(z3.fpDiv(RNE, a, b), bits), a, b)
        if tok == '==':
            return simp_bool(z3.fpEQ(a, b))
        if tok == '!=':
            return simp_bool(z3.Not(z3.fpEQ(a, b)))
        if tok == '<':
            return simp_bool(z3.fpLT(a, b))
        if tok == '<=':
            return simp_bool(z3.fpLEQ(a, b))
        if tok == '>':
            return simp_bool(z3.fpGT(a, b))
        if tok == '>=':
            return simp_bool(z3.fpGEQ(a, b))
        raise Unsupported('float op ' + tok)

    def op_UnOp(self, st, fr, ins):
        x = self.val(st, fr, ins['x'])
        tok = ins['tok']
        xt = self.ut(ins['xt'])
        if tok == '*':
            fr.regs[ins['reg']] = self.load(st, x)
            return
        if self.value_mode:
            r = self.vm.unop(self, tok, x, xt)
            if r is not NotImplemented:
                fr.regs[ins['reg']] = r
                return
        if tok == '!':
            r = (not x) if isinstance(x, bool) else simp_bool(z3.Not(x))
        elif tok == '-':
            if xt['k'] == 'int':
                r = wrap(-x, xt['bits'], xt['signed']) if not is_sym(x) else simp_int(-x, xt['bits'], xt['signed'])
            else:
                r = -x if not is_sym(x) else simp_fp(z3.fpNeg(x), xt['bits'])
        elif tok == '^':
            r = wrap(~x, xt['bits'], xt['signed']) if not is_sym(x) else simp_int(~x, xt['bits'], xt['signed'])
        else:
            raise Unsupported('UnOp ' + tok)
        fr.regs[ins['reg']] = r

    def op_Convert(self, st, fr, ins):
        x = self.val(st, fr, ins['x'])
        ft, tt = self.ut(ins['xt']), self.ut(ins['t'])
        fr.regs[ins['reg']] = self.convert(x, ft, tt, st)

    def convert(self, x, ft, tt, st=None):
        fk, tk = ft['k'], tt['k']
        if self.value_mode:
            r = self.vm.convert(self, x, ft, tt)
            if r is not NotImplemented:
                return r
        if fk == 'int' and tk == 'int':
            return self.int2int(x, ft, tt)
        if fk == 'int' and tk == 'float':
            if not is_sym(x):
                return int_to_f32(x) if tt['bits'] == 32 else float(x)  # python int->float is RNE
            sort = F64 if tt['bits'] == 64 else F32
            if ft['signed']:
                return self.fpa(st, 'i2f', simp_fp(z3.fpSignedToFP(RNE, x, sort), tt['bits']), x)
            return self.fpa(st, 'u2f', simp_fp(z3.fpUnsignedToFP(RNE, x, sort), tt['bits']), x)
        if fk == 'float' and tk == 'float':
            if ft['bits'] == tt['bits']:
                return x
            if not is_sym(x):
                return f32(x) if tt['bits'] == 32 else x
            sort = F64 if tt['bits'] == 64 else F32
            return self.fpa(st, 'f2f', simp_fp(z3.fpFPToFP(RNE, x, sort), tt['bits']), x)
        if fk == 'float' and tk == 'int':
            return self.float2int(x, ft, tt, st)
        if fk == tk and fk in ('ptr', 'unsafeptr', 'string', 'slice'):
            return x
        if tk == 'unsafeptr' or fk == 'unsafeptr':
            return x
        raise Unsupported('convert %s -> %s' % (ft.get('name', fk), tt.get('name', tk)))

    def int2int(self, x, ft, tt):
        fw, tw = ft['bits'], tt['bits']
        if not is_sym(x):
            return wrap(x, tw, tt['signed'])
        if tw == fw:
            return x
        if tw < fw:
            return simp_int(z3.Extract(tw - 1, 0, x), tw, tt['signed'])
        if ft['signed']:
            return simp_int(z3.SignExt(tw - fw, x), tw, tt['signed'])
        return simp_int(z3.ZeroExt(tw - fw, x), tw, tt['signed'])

    # gc/amd64 (go1.23) float -> integer conversion, see DESIGN.md section 3
    def float2int(self, x, ft, tt, st=None):
        tw, tsg = tt['bits'], tt['signed']
        if not is_sym(x):
            return wrap(amd64_f2i(float(x), tw, tsg), tw, tsg)
        x64 = x if ft['bits'] == 64 else z3.fpFPToFP(RNE, x, F64)
        two31 = fp_term(2147483648.0, 64)
        two63 = fp_term(9223372036854775808.0, 64)

        def cvt(v, n, lim):
            # CVTTSD2SI / CVTTSD2SQ: truncation when representable, else the "integer indefinite" 0x80..0
            if n == 32:
                inr = z3.And(z3.fpGT(v, fp_term(-2147483649.0, 64)), z3.fpLT(v, lim))
            else:
                inr = z3.And(z3.fpGEQ(v, z3.fpNeg(lim)), z3.fpLT(v, lim))
            return z3.If(inr, z3.fpToSBV(RTZ, v, z3.BitVecSort(n)), z3.BitVecVal(1 << (n - 1), n))
        if tw <= 16 or (tw == 32 and tsg):
            r = cvt(x64, 32, two31)
            if tw < 32:
                r = z3.Extract(tw - 1, 0, r)
        elif tw == 32:
            r = z3.Extract(31, 0, cvt(x64, 64, two63))
        elif tsg:
            r = cvt(x64, 64, two63)
        else:
            r = z3.If(z3.fpLT(x64, two63), cvt(x64, 64, two63),
                      cvt(z3.fpSub(RNE, x64, two63), 64, two63) | z3.BitVecVal(1 << 63, 64))
            # NaN: fpLT false -> second branch -> cvt(NaN)=0x80.. | 0x80.. = 0x80..
        r = simp_int(r, tw, tsg)
        if is_sym(r):
            r = self.fpa(st, 'f2i%s%d' % ('s' if tsg else 'u', tw), r, x)
        return r

    # ---- calls -------------------------------------------------------------
    def op_Call(self, st, fr, ins):
        if 'invoke' in ins:
            raise Unsupported('interface method call ' + ins['invoke'])
        fv = self.val(st, fr, ins['fnv'])
        args = [self.val(st, fr, a) for a in ins['args']]
        self.call(st, fv, args, ins)

    def call(self, st, fv, args, ins):
        fr = st.frames[-1]
        if isinstance(fv, Builtin):
            return self.call_builtin(st, fr, fv.name, args, ins)
        if not isinstance(fv, Closure):
            if fv is None:
                self.do_panic(st, 'nil func call')
            raise Unsupported('call of %r' % (fv,))
        fn = self.funcs[fv.fid]
        name = fn['origin'] or fn['name']
        h = self.intr.get(name)
        if h is not None:
            return h(self, st, fr, fn, args, ins)
        h = self.stubs.get(name)
        if h is None and fn['external']:
            from . import stubs as _stubs
            h = _stubs.resolve(fn['name'])
        if h is not None:
            return h(self, st, fr, fn, args, ins)
        if fn['external']:
            raise Unsupported('external function ' + fn['name'])
        va = st.ghost.get('varargs')
        if va:
            for a in args:
                if isinstance(a, SliceV) and a.obj in va:
                    va.discard(a.obj)
                    self.count_alloc(st, 'varargs', ins)
        nf = Frame(fn, args, fv.bindings)
        nf.ret_to = ins.get('reg')
        st.frames.append(nf)
        if len(st.frames) > 200:
            raise Unsupported('call depth')

    def push_call(self, st, closure, args, ret_to=None, catch=False, on_return=None, tag=None):
        fn = self.funcs[closure.fid]
        name = fn['origin'] or fn['name']
        if fn['external'] and name not in self.stubs:
            raise Unsupported('external function ' + fn['name'])
        nf = Frame(fn, args, closure.bindings)
        nf.ret_to = ret_to
        nf.catch = catch
        nf.on_return = on_return
        nf.tag = tag
        st.frames.append(nf)
        return nf

    def call_builtin(self, st, fr, name, args, ins):
        reg = ins.get('reg')
        if name == 'len':
            x = args[0]
            if isinstance(x, SliceV):
                fr.regs[reg] = x.len
            elif isinstance(x, str):
                fr.regs[reg] = len(x)
            elif isinstance(x, tuple):
                fr.regs[reg] = len(x)
            else:
                raise Unsupported('len of %r' % type(x))
        elif name == 'cap':
            x = args[0]
            if isinstance(x, SliceV):
                fr.regs[reg] = x.cap
            else:
                raise Unsupported('cap of %r' % type(x))
        elif name == 'append':
            self.builtin_append(st, fr, args, ins)
        elif name == 'copy':
            self.builtin_copy(st, fr, args, ins)
        elif name in ('min', 'max'):
            t = self.ut(ins['t'])
            r = args[0]
            for a in args[1:]:
                if t['k'] == 'int':
                    lt = self.int_binop(st, '<', a, r, t, t)
                elif t['k'] == 'float':
                    raise Unsupported('float min/max builtin')
                else:
                    raise Unsupported('min/max on ' + t['k'])
                r = self.merge(lt if name == 'min' else b_not(lt), a, r, ins['t'])
            fr.regs[reg] = r
        elif name == 'clear':
            x = args[0]
            if not isinstance(x, SliceV):
                raise Unsupported('clear of non-slice')
            if x.obj is not None:
                el = self.objmeta[x.obj]['elem']
                z = self.zero(el)
                for n, s2 in self.concretize(st, x.len, 64, True, what='clear len'):
                    for i in range(n):
                        self.store(s2, Ptr(x.obj, x.path + (self.iadd(x.off, i),)), z)
                    if s2 is not st:
                        self.worklist.append(s2)
        elif name in ('print', 'println'):
            pass
        elif name in ('Sizeof', 'Alignof'):
            fr.regs[reg] = self.elem_size(ins['argts'][0])
        elif name == 'recover':
            raise Unsupported('recover')
        else:
            raise Unsupported('builtin ' + name)

    def slice_elem_ptr(self, s, i):
        return Ptr(s.obj, s.path + (self.iadd(s.off, i),))

    def builtin_append(self, st, fr, args, ins):
        s, t = args
        reg = ins['reg']
        el = self.ut(ins['t'])['elem']
        conts = []
        for n, s1 in self.concretize(st, t.len, 64, True, what='append count'):
            fr1 = s1.frames[-1]
            if n == 0:
                # Go: append(s) with nothing to add returns s (nil stays nil)
                fr1.regs[reg] = s
                conts.append(s1)
                continue
            need = self.iadd(s.len, n)
            fits = self.sle(need, s.cap)
            for b, s2 in self.decide(s1, fits):
                fr2 = s2.frames[-1]
                if b:
                    s2.covers.add('@append-inplace')
                    vals = [self.load(s2, self.slice_elem_ptr(t, i)) for i in range(n)]
                    for i in range(n):
                        self.store(s2, Ptr(s.obj, s.path + (self.iadd(s.off, self.iadd(s.len, i)),)), vals[i])
                    fr2.regs[reg] = SliceV(s.obj, s.path, s.off, need, s.cap)
                    conts.append(s2)
                else:
                    s2.covers.add('@append-grow')
                    for oc, s3 in self.concretize(s2, s.cap, 64, True, what='append old cap'):
                        for ol, s4 in self.concretize(s3, s.len, 64, True, what='append old len'):
                            newcap = growcap.growslice_cap(oc, ol + n, self.elem_size(el))
                            fixed = s4.ghost.get('growcap_override')
                            if fixed is not None:
                                newcap = fixed(oc, ol + n, newcap)
                            olds = [self.load(s4, self.slice_elem_ptr(s, i)) for i in range(ol)] if ol else []
                            vals = [self.load(s4, self.slice_elem_ptr(t, i)) for i in range(n)]
                            z = self.zero(el)
                            cells = olds + vals + [z] * (newcap - ol - n)
                            oid = self.new_obj(s4, tuple(cells), 'append', ins.get('pos'), el)
                            self.count_alloc(s4, 'append-grow', ins)
                            s4.frames[-1].regs[reg] = SliceV(oid, (), 0, ol + n, newcap)
                            conts.append(s4)
        self.fork_from(st, conts)

    def sle(self, a, b):
        if not is_sym(a) and not is_sym(b):
            return a <= b
        r = static_le(a, b)
        if r is not None:
            return r
        return simp_bool(bv(a, 64) <= bv(b, 64))

    def elem_size(self, tid):
        t = self.ut(tid)
        k = t['k']
        if k in ('int', 'float'):
            return t['bits'] // 8
        if k == 'bool':
            return 1
        if k in ('ptr', 'unsafeptr', 'sig', 'map', 'chan'):
            return 8
        if k == 'slice':
            return 24
        if k in ('iface', 'string'):
            return 16
        if k == 'struct':
            return max(1, sum(self.elem_size(f['t']) for f in t['fields']))  # approximation (no padding)
        if k == 'array':
            return t.get('len', 0) * self.elem_size(t['elem'])
        raise Unsupported('size of ' + k)

    def builtin_copy(self, st, fr, args, ins):
        d, s = args
        reg = ins.get('reg')
        if isinstance(s, str):
            raise Unsupported('copy from string')
        n = self.merge(self.sle(d.len, s.len), d.len, s.len, None) if (is_sym(d.len) or is_sym(s.len)) else min(d.len, s.len)
        conts = []
        for nv, s1 in self.concretize(st, n, 64, True, what='copy count'):
            vals = [self.load(s1, self.slice_elem_ptr(s, i)) for i in range(nv)]
            for i in range(nv):
                self.store(s1, self.slice_elem_ptr(d, i), vals[i])
            if reg:
                s1.frames[-1].regs[reg] = nv
            conts.append(s1)
        self.fork_from(st, conts)

    # ---- concurrency hooks (overridden by threads.py) ------------------------
    def sched_point(self, st, what):
        pass

    def on_empty_frames(self, st):
        return False

    def sync_acquire(self, st, key):
        pass

    def sync_release(self, st, key):
        pass

    def pool_release(self, st, item):
        pass

    def pool_acquire(self, st, item):
        pass

    # ---- reporting ---------------------------------------------------------
    def check_assert(self, st, label, cond):
        r = self.cur_result['asserts'].setdefault(label, {'checked': 0, 'failed': 0, 'unknown': 0, 'trivial': 0})
        r['checked'] += 1
        cond = simp_bool(cond)
        if cond is True:
            r['trivial'] += 1
            return
        if r['failed'] >= self.opts.get('max_violations_per_label', 2):
            # already reported for this harness: do not spend solver time on more witnesses of the same failure
            r['skipped_after_failure'] = r.get('skipped_after_failure', 0) + 1
            st.ghost['no_witness'] = True   # this path is not known to satisfy its assertions
            if cond is False:
                raise PathEnd('assert-false')
            return
        neg = z3.BoolVal(True) if cond is False else z3.Not(cond)
        excl = []      # witness regions of known findings already met on this obligation
        while True:
            res = self.solver.check(st.pc + excl, neg)
            if res == 'sat' and st.defs:
                # counterexample of the abstraction: decide again with the exact definitions
                self.solver.done()
                r['refined'] = r.get('refined', 0) + 1
                res = self.solver.check(st.pc + st.defs + excl, neg)
            if res != 'sat':
                break
            kf = self.known_match(st, label, self.solver.model())
            if kf is None:
                break
            # a listed finding: report it as such, exclude its witness region and look for anything else
            m = self.solver.model()
            self.solver.done()
            finding, region = kf
            r['known'] = r.get('known', 0) + 1
            self.report_violation(st, label, m, extra_text='known finding: ' + str(finding.get('id', '')), known=True)
            if region is None:
                res = 'unsat'
                self.solver.check(st.pc)   # keep done() below balanced
                break
            excl.append(region)
            if len(excl) > 8:
                res = 'unknown'
                self.solver.check(st.pc)
                break
        nx = self.opts.get('export_queries', 0)
        if nx and res in ('sat', 'unsat') and not excl and not r.get('known'):
            ex = self.cur_result.setdefault('exports', [])
            if len(ex) < nx and sum(1 for e in ex if e['label'] == label) < 2:
                try:
                    txt = self.solver.export(st.pc + (st.defs if r.get('refined') else []), neg)
                    if len(txt) < 400000:
                        ex.append({'label': label, 'result': res, 'smt2': txt})
                except Exception:
                    pass
        if res == 'sat':
            m = self.solver.model()
            self.solver.done()
            r['failed'] += 1
            st.ghost['no_witness'] = True
            self.report_violation(st, label, m)
            if cond is False:
                raise PathEnd('assert-false')
            # continue under the assumption that it held, to find independent failures
            if self.feasible(st, cond):
                st.pc.append(cond)
                st.model = None
            else:
                raise PathEnd('assert-false')
        else:
            self.solver.done()
            if res == 'unknown':
                r['unknown'] += 1
                self.note_unknown(st, 'assert ' + label)
            if len(self.cur_result['samples']) < 6 and res == 'unsat':
                self.cur_result['samples'].append({'obligation': label, 'result': 'unsat', 'path_conditions': len(st.pc),
                                                   'pos': self.cur_pos(st)})

    def known_match(self, st, label, model):
        """(finding, exclusion constraint | None) when the model lies in the witness region of a listed known finding"""
        import re
        for k in self.opts.get('known') or []:
            if not re.search(k.get('label', '.*'), label):
                continue
            wit = k.get('witness') or {}
            if not wit:
                continue
            ok = True
            parts = []
            for name, allowed in wit.items():
                term = next((t for n, _, t in st.nondet if n == name), None)
                tid = next((ti for n, ti, _ in st.nondet if n == name), None)
                if term is None:
                    ok = False
                    break
                got = self.model_bits(model, term, tid)
                if got not in allowed:
                    ok = False
                    break
                zt = term if is_sym(term) else getattr(term, 't', None)
                if zt is not None and z3.is_expr(zt):
                    if z3.is_bv(zt):
                        parts.append(z3.Or(*[zt == z3.BitVecVal(v, zt.size()) for v in allowed]))
                    elif z3.is_int(zt):
                        parts.append(z3.Or(*[zt == z3.IntVal(v) for v in allowed]))
            if ok:
                return k, (z3.Not(z3.And(*parts)) if parts else None)
        return None

    def report_violation(self, st, label, model, extra_text=None, known=False):
        if model is None:
            res = self.solver.check(st.pc + st.defs)
            if res != 'sat':
                self.solver.done()
                return
            model = self.solver.model()
            self.solver.done()
        vals = []
        for name, tid, term in st.nondet:
            vals.append({'name': name, 'bits': str(self.model_bits(model, term, tid)), 'type': self.types[tid]['str']})
        nlab = sum(1 for x in self.cur_result['violations'] if x['label'] == label and bool(x.get('known')) == known)
        if nlab >= self.opts.get('max_violations_per_label', 2):
            self.cur_result['violations_dropped'] = self.cur_result.get('violations_dropped', 0) + 1
            return
        v = {'label': label, 'values': vals, 'pos': self.cur_pos(st), 'text': extra_text,
             'covers': sorted(st.covers), 'choices': list(st.ghost.get('choices', [])), 'known': known}
        if len(self.cur_result['violations']) < self.opts.get('max_violations', 40):
            self.cur_result['violations'].append(v)

    def model_bits(self, model, term, tid):
        t = self.ut(tid)
        if self.value_mode:
            r = self.vm.model_bits(model, term, t)
            if r is not None:
                return r
        if t['k'] == 'int':
            if not is_sym(term):
                return term & ((1 << t['bits']) - 1)
            return model.eval(term, model_completion=True).as_long()
        if t['k'] == 'float':
            bits = t['bits']
            if not is_sym(term):
                return fbits64(term) if bits == 64 else fbits32(term)
            if z3.is_true(model.eval(z3.fpIsNaN(term), model_completion=True)):
                return 0x7ff8000000000001 if bits == 64 else 0x7fc00001
            return model.eval(z3.fpToIEEEBV(term), model_completion=True).as_long()
        if t['k'] == 'bool':
            if not is_sym(term):
                return int(term)
            return 1 if z3.is_true(model.eval(term, model_completion=True)) else 0
        raise Unsupported('model value of ' + t['k'])


class _Resume(Exception):
    """a panic was caught by a vf.Panics frame: abandon the current instruction, keep running the state"""


def amd64_f2i(x, tw, tsg):
    """concrete gc/amd64 float64 -> integer conversion (returns the raw two's complement value, unwrapped)"""
    def cvt(v, n):
        if v != v or v in (float('inf'), float('-inf')):
            return 1 << (n - 1)
        t = math.trunc(v)
        if -(1 << (n - 1)) <= t < (1 << (n - 1)):
            return t & ((1 << n) - 1)
        return 1 << (n - 1)
    if tw <= 16 or (tw == 32 and tsg):
        return cvt(x, 32)
    if tw == 32:
        return cvt(x, 64) & 0xffffffff
    if tsg:
        return cvt(x, 64)
    if x < 9223372036854775808.0:
        return cvt(x, 64)
    return cvt(x - 9223372036854775808.0, 64) | (1 << 63)


# patch run_path to understand _Resume
_orig_run_path = Engine.run_path


def _run_path(self, st):
    try:
        while True:
            if not st.frames:
                r = self.on_empty_frames(st)
                if r == 'dead':
                    return
                if not r:
                    self.end_path(st, 'ok')
                    return
            try:
                self.step(st)
            except _Resume:
                continue
    except PathEnd as e:
        self.end_path(st, e.args[0])
    except Unsupported as e:
        self.cur_result['unsupported'].append(str(e))
        # concolic fall-back: a concrete input of the path prefix; the runner completes the run natively
        fb = self.cur_result.setdefault('fallbacks', [])
        self.cur_result['n_unsupported_paths'] = self.cur_result.get('n_unsupported_paths', 0) + 1
        nfb = self.opts.get('fallbacks', 6)
        # spread the budget over the unsupported paths (first few, then every 7th)
        if len(fb) < nfb and (len(fb) < 3 or self.cur_result['n_unsupported_paths'] % 7 == 0):
            try:
                if self.solver.check(st.pc + st.defs) == 'sat':
                    m = self.solver.model()
                    fb.append({'values': [{'name': n, 'bits': str(self.model_bits(m, term, tid))} for n, tid, term in st.nondet],
                               'reason': str(e)[:200]})
                self.solver.done()
            except Exception:
                pass
        self.end_path(st, 'unsupported')


Engine.run_path = _run_path


def load_ir(path):
    with open(path) as f:
        return json.load(f)
