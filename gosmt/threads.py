"""vf.Par: bounded-schedule exploration of goroutines inside one symbolic state.

Threads are coroutines. Scheduling points are the stubbed synchronisation calls
(sync.Pool.Get/Put) and thread start/end; at each one the executor forks over which
runnable thread moves next. Every heap access inside vf.Par is logged with the
accessor's vector clock; at the join a solver query per candidate pair decides
whether two accesses from different threads, unordered by happens-before
(program order, fork/join, Pool.Put -> Pool.Get of the same item), at least one a
write, can address the same cell: sat => data race.  Running the segments between
scheduling points atomically is justified by that check (DRF-SC).
"""
import z3

from .engine import Closure, PathEnd, Unsupported, bv, is_sym, simp_bool, b_and
from . import intrinsics

P = 'verifharness/vf.'


class TRec:
    __slots__ = ('tid', 'frames', 'done', 'vc', 'at_sched', 'started', 'blocked_on')

    def __init__(self, tid, frames, vc):
        self.tid = tid
        self.frames = frames
        self.done = False
        self.vc = vc
        self.at_sched = False
        self.started = False
        self.blocked_on = None   # key of a WaitGroup this goroutine waits for

    def copy(self):
        r = TRec(self.tid, self.frames, dict(self.vc))
        r.done = self.done
        r.at_sched = self.at_sched
        r.started = self.started
        r.blocked_on = self.blocked_on
        return r


class Par:
    """per-state record of a running vf.Par (copied on state clone via .copy())"""

    def __init__(self):
        self.threads = []
        self.main_frames = None
        self.main_vc = None
        self.cur = None
        self.ret_ins = None
        self.item_clock = {}
        self.schedule = []
        self.implicit = False    # created by a go statement (the spawner keeps running as thread 0)

    def copy(self):
        p = Par()
        p.implicit = self.implicit
        p.threads = [t.copy() for t in self.threads]
        p.main_frames = self.main_frames
        p.main_vc = dict(self.main_vc) if self.main_vc else None
        p.cur = self.cur
        p.ret_ins = self.ret_ins
        p.item_clock = dict(self.item_clock)
        p.schedule = list(self.schedule)
        return p


def install(eng):
    eng.intr = dict(eng.intr)
    eng.intr[P + 'Par'] = lambda e, st, fr, fn, args, ins: i_par(e, st, fr, fn, args, ins)
    eng.intr[P + 'Own'] = i_own
    eng.intr[P + 'Release'] = i_release
    eng.sched_point = lambda st, what: sched_point(eng, st, what)
    eng.pool_release = lambda st, item: pool_release(eng, st, item)
    eng.pool_acquire = lambda st, item: pool_acquire(eng, st, item)
    eng.on_empty_frames = lambda st: on_empty_frames(eng, st)
    eng.sync_acquire = lambda st, key: sync_acquire(eng, st, key)
    eng.sync_release = lambda st, key: sync_release(eng, st, key)
    eng.log_access = lambda st, ptr, write: log_access(eng, st, ptr, write)
    eng.op_Go = lambda st, fr, ins: op_go(eng, st, fr, ins)
    eng.stubs = dict(eng.stubs)
    eng.stubs['(*sync.WaitGroup).Add'] = wg_add
    eng.stubs['(*sync.WaitGroup).Done'] = wg_done
    eng.stubs['(*sync.WaitGroup).Wait'] = wg_wait
    eng.stubs['runtime.GOMAXPROCS'] = lambda e, st, fr, fn, args, ins: _set_reg(st, ins, e.opts.get('gomaxprocs', 4))
    eng.stubs['runtime.NumCPU'] = lambda e, st, fr, fn, args, ins: _set_reg(st, ins, e.opts.get('gomaxprocs', 4))
    eng.stubs['runtime.Gosched'] = lambda e, st, fr, fn, args, ins: sched_point(e, st, 'Gosched')


def log_access(eng, st, ptr, write):
    par = st.ghost.get('par')
    if par is None or par.cur is None:
        return
    t = par.threads[par.cur]
    key_path = tuple(p if isinstance(p, int) else ('s', p.get_id()) for p in ptr.path)
    key = (t.tid, t.vc[t.tid], ptr.obj, key_path, write)
    seen = st.ghost['access_keys']
    if key in seen:
        return
    seen.add(key)
    st.ghost['access'].append((t.tid, dict(t.vc), ptr.obj, ptr.path, write, eng.cur_pos(st)))


def i_par(eng, st, fr, fn, args, ins):
    sl = args[0]
    if st.ghost.get('par') is not None:
        raise Unsupported('nested vf.Par')
    n = sl.len
    if is_sym(n):
        raise Unsupported('vf.Par with symbolic thread count')
    if n == 0:
        return
    clos = [eng.load(st, eng.slice_elem_ptr(sl, i)) for i in range(n)]
    par = Par()
    par.main_frames = st.frames
    par.main_vc = {0: 1}
    par.ret_ins = ins
    for i, c in enumerate(clos):
        if not isinstance(c, Closure):
            raise Unsupported('vf.Par argument')
        tid = i + 1
        from .engine import Frame
        f = Frame(eng.funcs[c.fid], [], c.bindings)
        vc = {0: 1, tid: 1}
        par.threads.append(TRec(tid, [f], vc))
    st.ghost['par'] = par
    st.ghost['access'] = []
    st.ghost['access_keys'] = set()
    st.ghost['owners'] = {}
    st.frames = []
    schedule(eng, st)


def _set_reg(st, ins, v):
    if ins.get('reg'):
        st.frames[-1].regs[ins['reg']] = v


def _wg_key(p):
    return ('wg', p.obj, tuple(x if isinstance(x, int) else ('s', x.get_id()) for x in p.path))


def _wg_count(st, key):
    return st.ghost.get('atomics', {}).get(key, 0)


def runnable(par, st=None):
    out = []
    for i, t in enumerate(par.threads):
        if t.done:
            continue
        if t.blocked_on is not None and st is not None and _wg_count(st, t.blocked_on) > 0:
            continue
        out.append(i)
    return out


def op_go(eng, st, fr, ins):
    """go f(args): library-internal goroutine. The spawner keeps running (as thread 0 of an implicit context)."""
    if 'invoke' in ins:
        raise Unsupported('go on an interface method')
    fv = eng.val(st, fr, ins['fnv'])
    args = [eng.val(st, fr, a) for a in ins['args']]
    if not isinstance(fv, Closure):
        raise Unsupported('go on a non-function value')
    fn = eng.funcs[fv.fid]
    if fn['external']:
        raise Unsupported('go on external function ' + fn['name'])
    from .engine import Frame
    par = st.ghost.get('par')
    if par is None:
        par = Par()
        par.implicit = True
        root = TRec(0, st.frames, {0: 1})
        root.started = True
        par.threads.append(root)
        par.cur = 0
        st.ghost['par'] = par
        st.ghost['access'] = []
        st.ghost['access_keys'] = set()
        st.ghost.setdefault('owners', {})
        st.ghost['cur_thread'] = 0
    cur = par.threads[par.cur]
    tid = max(t.tid for t in par.threads) + 1
    vc = dict(cur.vc)
    vc[tid] = 1
    cur.vc[cur.tid] = cur.vc.get(cur.tid, 0) + 1     # fork edge
    par.threads.append(TRec(tid, [Frame(fn, args, fv.bindings)], vc))
    st.covers.add('@go')
    if len(par.threads) > eng.opts.get('max_goroutines', 8):
        raise Unsupported('more than %d goroutines' % eng.opts.get('max_goroutines', 8))


def wg_add(eng, st, fr, fn, args, ins):
    p, n = args
    if is_sym(n):
        raise Unsupported('WaitGroup.Add of a symbolic count')
    key = _wg_key(p)
    d = dict(st.ghost.get('atomics', {}))
    d[key] = d.get(key, 0) + n
    if d[key] < 0:
        eng.do_panic(st, 'sync: negative WaitGroup counter')
    st.ghost['atomics'] = d
    if n < 0:
        sync_release(eng, st, key)


def wg_done(eng, st, fr, fn, args, ins):
    p = args[0]
    # (no scheduling point of its own: Done is atomic and what follows it in a goroutine is its own exit)
    key = _wg_key(p)
    d = dict(st.ghost.get('atomics', {}))
    d[key] = d.get(key, 0) - 1
    if d[key] < 0:
        eng.do_panic(st, 'sync: negative WaitGroup counter')
    st.ghost['atomics'] = d
    sync_release(eng, st, key)


def wg_wait(eng, st, fr, fn, args, ins):
    p = args[0]
    key = _wg_key(p)
    par = st.ghost.get('par')
    if par is None or par.cur is None:
        if _wg_count(st, key) > 0:
            raise PathEnd('pruned')   # nobody can ever call Done
        return
    if _wg_count(st, key) > 0:
        # block: rewind to the call, mark blocked, let the others run
        f = st.frames[-1]
        f.ip -= 1
        st.ninstr -= 1
        t = par.threads[par.cur]
        t.blocked_on = key
        st.ghost['resumed'] = False
        pause_current(eng, st, False)
        schedule(eng, st)
        return
    par.threads[par.cur].blocked_on = None
    sync_acquire(eng, st, key)


def schedule(eng, st):
    """fork over which runnable thread moves next; the current state object is abandoned"""
    par = st.ghost['par']
    rs = runnable(par, st)
    if not rs:
        if par.implicit or any(not t.done for t in par.threads):
            # every remaining goroutine waits for something that cannot happen any more on this schedule
            raise PathEnd('deadlock' if any(not t.done for t in par.threads) else 'pruned')
        join(eng, st)
        return
    fixed = eng.opts.get('schedule')
    conts = []
    for n, i in enumerate(rs):
        s = st.clone()
        p = s.ghost['par']
        t = p.threads[i]
        p.cur = i
        p.schedule.append(t.tid)
        s.frames = [f.clone() for f in t.frames]
        s.ghost['cur_thread'] = t.tid
        s.ghost['resumed'] = t.at_sched
        t.at_sched = False
        t.started = True
        s.trace.append('run=T%d' % t.tid)
        conts.append(s)
    st.frames = []
    for s in conts:
        eng.worklist.append(s)
    raise PathEnd('pruned')


def pause_current(eng, st, at_sched):
    par = st.ghost['par']
    t = par.threads[par.cur]
    t.frames = st.frames
    t.at_sched = at_sched
    par.cur = None


def sched_point(eng, st, what):
    par = st.ghost.get('par')
    if par is None or par.cur is None:
        return
    if st.ghost.get('resumed'):
        st.ghost['resumed'] = False
        return
    # pause before the operation: rewind to the call instruction
    fr = st.frames[-1]
    fr.ip -= 1
    st.ninstr -= 1
    pause_current(eng, st, True)
    schedule(eng, st)


def on_empty_frames(eng, st):
    """called by the run loop when the frame stack is empty; True = keep running this state"""
    par = st.ghost.get('par')
    if par is None:
        return False
    if par.cur is not None:
        t = par.threads[par.cur]
        if par.implicit and t.tid == 0:
            # the spawner (the harness itself) finished: the program ends here
            check_races(eng, st)
            st.ghost['par'] = None
            return False
        t.done = True
        t.frames = []
        par.cur = None
        try:
            schedule(eng, st)
        except PathEnd:
            pass
        return 'dead'
    return False


def join(eng, st):
    par = st.ghost['par']
    # main continues after all threads: its clock dominates everything
    st.frames = [f.clone() for f in par.main_frames]
    st.ghost['cur_thread'] = 0
    check_races(eng, st)
    st.ghost['par'] = None
    st.ghost['last_schedule'] = list(par.schedule)
    st.covers.add('@par-joined')
    # state continues in place (the caller raised / returns accordingly)
    eng.worklist.append(st)


def hb(a_tid, a_vc, b_vc):
    return a_vc.get(a_tid, 0) <= b_vc.get(a_tid, 0)


def paths_may_alias(eng, st, p1, p2):
    """None = cannot alias; True = always; z3 term = condition"""
    cond = True
    for a, b in zip(p1, p2):
        if isinstance(a, int) and isinstance(b, int):
            if a != b:
                return None
        else:
            cond = b_and(cond, simp_bool(bv(a, 64) == bv(b, 64)))
            if cond is False:
                return None
    return cond   # one path may be a prefix of the other: overlapping


def _candidate_pairs(es):
    """all pairs of accesses to one object that can overlap: accesses whose paths start with different
    concrete indices cannot, so they are bucketed by that index (linear for long concrete loops)"""
    groups, wild = {}, []
    for e in es:
        p = e[3]
        if p and isinstance(p[0], int):
            groups.setdefault(p[0], []).append(e)
        else:
            wild.append(e)
    for g in groups.values():
        if len(g) > 1 and (any(x[4] for x in g)) and len({x[0] for x in g}) > 1:
            for i in range(len(g)):
                for j in range(i + 1, len(g)):
                    yield g[i], g[j]
    for i in range(len(wild)):
        for j in range(i + 1, len(wild)):
            yield wild[i], wild[j]
        for g in groups.values():
            for b in g:
                yield wild[i], b


def check_races(eng, st):
    acc = st.ghost.get('access') or []
    by_obj = {}
    for e in acc:
        by_obj.setdefault(e[2], []).append(e)
    res = eng.cur_result['asserts'].setdefault('no-data-race', {'checked': 0, 'failed': 0, 'unknown': 0, 'trivial': 0})
    reported = 0
    for obj, es in by_obj.items():
        for a, b in _candidate_pairs(es):
            if True:
                if a[0] == b[0] or not (a[4] or b[4]):
                    continue
                if hb(a[0], a[1], b[1]) or hb(b[0], b[1], a[1]):
                    continue
                cond = paths_may_alias(eng, st, a[3], b[3])
                if cond is None:
                    continue
                res['checked'] += 1
                if cond is not True:
                    r = eng.solver.check(st.pc, cond)
                    if r != 'sat':
                        eng.solver.done()
                        if r == 'unknown':
                            res['unknown'] += 1
                            eng.note_unknown(st, 'race pair')
                        continue
                    m = eng.solver.model()
                    eng.solver.done()
                else:
                    m = None
                res['failed'] += 1
                if reported < 2:
                    reported += 1
                    txt = 'data race on %s between T%d (%s, %s) and T%d (%s, %s) schedule=%s' % (
                        eng.objmeta[obj].get('site'), a[0], 'write' if a[4] else 'read', a[5], b[0], 'write' if b[4] else 'read', b[5],
                        st.ghost['par'].schedule)
                    eng.report_violation(st, 'no-data-race', m, extra_text=txt)
    if not res['checked']:
        res['trivial'] += 1


# ---- happens-before through the pool ----------------------------------------------

def _item_key(item):
    from .engine import Ptr
    if isinstance(item, Ptr):
        return (item.obj, item.path)
    v = getattr(item, 'val', None)
    if isinstance(v, Ptr):
        return (v.obj, v.path)
    return id(item)


def pool_release(eng, st, item):
    par = st.ghost.get('par')
    if par is None or par.cur is None:
        return
    t = par.threads[par.cur]
    par.item_clock[_item_key(item)] = dict(t.vc)
    t.vc[t.tid] = t.vc.get(t.tid, 0) + 1


def pool_acquire(eng, st, item):
    par = st.ghost.get('par')
    if par is None or par.cur is None:
        return
    t = par.threads[par.cur]
    c = par.item_clock.get(_item_key(item))
    if c:
        for k, v in c.items():
            if t.vc.get(k, 0) < v:
                t.vc[k] = v
    t.vc[t.tid] = t.vc.get(t.tid, 0) + 1


# ---- ownership ghost (exclusivity) -----------------------------------------------------

def _storage_of(eng, st, b):
    """storage object of a *signal.Buffer: the backing array of its first slice-typed field"""
    from .engine import SliceV
    val = eng.load(st, b)
    for f in val:
        if isinstance(f, SliceV):
            return f.obj
    return None


def i_own(eng, st, fr, fn, args, ins):
    b = args[0]
    owners = st.ghost.setdefault('owners', {})
    me = st.ghost.get('cur_thread', 0)
    keys = [('hdr', b.obj)]
    so = _storage_of(eng, st, b)
    if so is not None:
        keys.append(('arr', so))
    clash = any(owners.get(k) not in (None, me) for k in keys)
    eng.check_assert(st, 'exclusive-ownership', not clash)
    for k in keys:
        owners[k] = me
    st.ghost['owners'] = owners


def i_release(eng, st, fr, fn, args, ins):
    # a scheduling point while the buffer is still held: other goroutines run with this one inside its
    # critical section (natively: runtime.Gosched), so a double hand-out shows up as an ownership clash
    sched_point(eng, st, 'vf.Release')
    b = args[0]
    owners = dict(st.ghost.get('owners', {}))
    me = st.ghost.get('cur_thread', 0)
    for k in [('hdr', b.obj), ('arr', _storage_of(eng, st, b))]:
        if owners.get(k) == me:
            del owners[k]
    st.ghost['owners'] = owners


def sync_release(eng, st, key):
    par = st.ghost.get('par')
    if par is None or par.cur is None:
        return
    t = par.threads[par.cur]
    c = dict(par.item_clock.get(key) or {})
    for k, v in t.vc.items():
        if c.get(k, 0) < v:
            c[k] = v
    par.item_clock[key] = c
    t.vc[t.tid] = t.vc.get(t.tid, 0) + 1


def sync_acquire(eng, st, key):
    par = st.ghost.get('par')
    if par is None or par.cur is None:
        return
    t = par.threads[par.cur]
    c = par.item_clock.get(key)
    if c:
        for k, v in c.items():
            if t.vc.get(k, 0) < v:
                t.vc[k] = v
    t.vc[t.tid] = t.vc.get(t.tid, 0) + 1
