"""Models of external callees (all listed in the evidence as part of the claim)."""
import math

import z3

from .engine import (Closure, Iface, PathEnd, Ptr, ReflectV, SliceV, Unsupported, b_and, b_not, bv, fp_term, is_sym,
                     simp_bool, simp_fp, F64, NILPTR)

DESCRIPTIONS = {
    'math.Ceil/Floor/Trunc/Round': 'SMT fp.roundToIntegral RTP/RTN/RTZ/RNA (IEEE 754); concrete arguments use the host libm',
    'math.Min/Max': 'IEEE comparison with the Go special cases (NaN propagates, -0 < +0)',
    'math.Abs/IsNaN/IsInf/Inf/NaN': 'IEEE predicates / constants',
    'reflect.ValueOf(p).Elem().SetCap(n)': 'ValueOf wraps the pointer, Elem dereferences, SetCap panics unless len <= n <= cap else sets cap; other reflect calls are unsupported',
    'sync/atomic typed values, sync.Mutex': 'sequentially consistent location per atomic value; every operation is a scheduling point; Load acquires, Store releases, Swap/Add/CompareAndSwap do both (Go memory model); Mutex Lock acquires / Unlock releases, schedules that attempt a held lock are skipped (covered by the schedule in which the attempt comes later)',
    'sync.Pool.Get/Put': 'linearizable multiset per pool: Put adds the item (nil ignored); Get forks over every pooled item (removed) and over New() (models items dropped by GC) or nil when New is unset',
    'append growth': 'go1.23 growslice capacity (nextslicecap + malloc size classes), validated against the native runtime in the self-test',
    'float->int': 'gc/amd64 CVTTSD2SI/CVTTSD2SQ lowering with the integer-indefinite value for out-of-range/NaN (validated natively in the self-test)',
}


def _ret(st, ins, v):
    if ins.get('reg'):
        st.frames[-1].regs[ins['reg']] = v


def _round(mode_z3, pyfn):
    def h(eng, st, fr, fn, args, ins):
        x = args[0]
        if eng.value_mode:
            r = eng.vm.round(eng, st, fn['name'], x)
            if r is not NotImplemented:
                _ret(st, ins, r)
                return
        if not is_sym(x):
            if x != x or x in (float('inf'), float('-inf')) or x == 0:
                _ret(st, ins, x)
            else:
                _ret(st, ins, pyfn(x))
            return
        _ret(st, ins, eng.fpa(st, 'round_' + fn['name'].split('.')[-1], simp_fp(z3.fpRoundToIntegral(mode_z3, x), 64), x))
    return h


def _py_round(x):
    # math.Round: half away from zero
    a = abs(x)
    if a >= 4503599627370496.0:
        return x
    t = math.floor(a)
    r = t + 1 if a - t >= 0.5 else t
    return math.copysign(float(r), x)


def _py_ceil(x):
    return math.copysign(float(math.ceil(x)), x) if abs(x) < 4503599627370496.0 else x


def _py_floor(x):
    return math.copysign(float(math.floor(x)), x) if abs(x) < 4503599627370496.0 else x


def _py_trunc(x):
    return math.copysign(float(math.trunc(x)), x) if abs(x) < 4503599627370496.0 else x


def s_abs(eng, st, fr, fn, args, ins):
    x = args[0]
    if eng.value_mode:
        r = eng.vm.fabs(eng, x)
        if r is not NotImplemented:
            return _ret(st, ins, r)
    _ret(st, ins, abs(x) if not is_sym(x) else simp_fp(z3.fpAbs(x), 64))


def s_isnan(eng, st, fr, fn, args, ins):
    x = args[0]
    if eng.value_mode:
        r = eng.vm.isnan(eng, x)
        if r is not NotImplemented:
            return _ret(st, ins, r)
    _ret(st, ins, (x != x) if not is_sym(x) else simp_bool(z3.fpIsNaN(x)))


def s_isinf(eng, st, fr, fn, args, ins):
    x, sign = args
    if is_sym(sign):
        raise Unsupported('math.IsInf with symbolic sign')
    if eng.value_mode:
        r = eng.vm.isinf(eng, x, sign)
        if r is not NotImplemented:
            return _ret(st, ins, r)
    if not is_sym(x):
        r = (sign >= 0 and x == float('inf')) or (sign <= 0 and x == float('-inf'))
    else:
        pos = z3.And(z3.fpIsInf(x), z3.fpIsPositive(x))
        neg = z3.And(z3.fpIsInf(x), z3.fpIsNegative(x))
        r = simp_bool(pos if sign > 0 else neg if sign < 0 else z3.fpIsInf(x))
    _ret(st, ins, r)


def _minmax(is_min):
    def h(eng, st, fr, fn, args, ins):
        x, y = args
        if eng.value_mode and (eng.vm.is_term(x) or eng.vm.is_term(y)):
            raise Unsupported('math.Min/Max in value mode')
        if not is_sym(x) and not is_sym(y):
            if x != x or y != y:
                return _ret(st, ins, float('nan'))
            if x == 0 and y == 0:
                neg = (math.copysign(1, x) < 0, math.copysign(1, y) < 0)
                r = -0.0 if (any(neg) if is_min else all(neg)) else 0.0
                return _ret(st, ins, r)
            return _ret(st, ins, min(x, y) if is_min else max(x, y))
        a, b = fp_term(x, 64), fp_term(y, 64)
        nan = z3.fpNaN(F64)
        if is_min:
            pick = z3.If(z3.fpLT(a, b), a, z3.If(z3.fpLT(b, a), b, z3.If(z3.fpIsNegative(a), a, b)))
        else:
            pick = z3.If(z3.fpGT(a, b), a, z3.If(z3.fpGT(b, a), b, z3.If(z3.fpIsNegative(a), b, a)))
        r = z3.If(z3.Or(z3.fpIsNaN(a), z3.fpIsNaN(b)), nan, pick)
        _ret(st, ins, simp_fp(r, 64))
    return h


def s_inf(eng, st, fr, fn, args, ins):
    sign = args[0]
    if is_sym(sign):
        raise Unsupported('math.Inf with symbolic sign')
    _ret(st, ins, float('inf') if sign >= 0 else float('-inf'))


def s_nan(eng, st, fr, fn, args, ins):
    _ret(st, ins, float('nan'))


def s_f64bits(eng, st, fr, fn, args, ins):
    x = args[0]
    if not is_sym(x):
        from .engine import fbits64
        return _ret(st, ins, fbits64(x))
    raise Unsupported('math.Float64bits of a symbolic value (harnesses use vf.SameBits)')


def s_f32bits(eng, st, fr, fn, args, ins):
    x = args[0]
    if not is_sym(x):
        from .engine import fbits32
        return _ret(st, ins, fbits32(x))
    raise Unsupported('math.Float32bits of a symbolic value (harnesses use vf.SameBits)')


# ---- reflect (only what alignCapacity-style code needs) ----------------------

def s_reflect_valueof(eng, st, fr, fn, args, ins):
    i = args[0]
    if i is None:
        _ret(st, ins, ReflectV('invalid'))
        return
    if isinstance(i.val, Ptr):
        _ret(st, ins, ReflectV('ptr', ptr=i.val, val=i.tid))
    else:
        raise Unsupported('reflect.ValueOf of non-pointer')


def s_reflect_elem(eng, st, fr, fn, args, ins):
    v = args[0]
    if not isinstance(v, ReflectV) or v.kind != 'ptr':
        raise Unsupported('reflect.Value.Elem on ' + getattr(v, 'kind', '?'))
    if v.ptr.obj is None:
        _ret(st, ins, ReflectV('invalid'))
        return
    el = eng.ut(v.val)['elem']
    _ret(st, ins, ReflectV('addr', ptr=v.ptr, val=el))


def _reflect_slice(eng, st, v, what):
    if not isinstance(v, ReflectV) or v.kind != 'addr' or eng.ut(v.val)['k'] != 'slice':
        eng.do_panic(st, 'reflect: call of reflect.Value.%s on non-slice or unaddressable value' % what)
    return eng.load(st, v.ptr)


def s_reflect_setcap(eng, st, fr, fn, args, ins):
    v, n = args
    s = _reflect_slice(eng, st, v, 'SetCap')
    ok = b_and(eng.sle(s.len, n), eng.sle(n, s.cap))
    eng.guard_panic(st, ok, 'reflect: slice capacity out of range in SetCap')
    eng.store(st, v.ptr, SliceV(s.obj, s.path, s.off, s.len, n))


def s_reflect_setlen(eng, st, fr, fn, args, ins):
    v, n = args
    s = _reflect_slice(eng, st, v, 'SetLen')
    ok = eng.ule(n, s.cap)
    eng.guard_panic(st, ok, 'reflect: slice length out of range in SetLen')
    eng.store(st, v.ptr, SliceV(s.obj, s.path, s.off, n, s.cap))


def s_reflect_len(eng, st, fr, fn, args, ins):
    s = _reflect_slice(eng, st, args[0], 'Len')
    _ret(st, ins, s.len)


def s_reflect_cap(eng, st, fr, fn, args, ins):
    s = _reflect_slice(eng, st, args[0], 'Cap')
    _ret(st, ins, s.cap)


# ---- sync.Pool -----------------------------------------------------------------

def _pool_fields(eng, fn):
    # receiver type *sync.Pool -> struct fields
    pt = eng.ut(fn['params'][0]['t'])
    stt = eng.ut(pt['elem'])
    names = [f['name'] for f in stt['fields']]
    return names


def s_pool_put(eng, st, fr, fn, args, ins):
    p, x = args
    if p.obj is None:
        eng.do_panic(st, 'nil pool')
    eng.sched_point(st, 'Pool.Put')
    if x is None:
        return
    pools = st.ghost.setdefault('pools', {})
    key = (p.obj, p.path)
    items = list(pools.get(key, ()))
    items.append(x)
    pools[key] = tuple(items)
    eng.pool_release(st, x)


def s_pool_get(eng, st, fr, fn, args, ins):
    p = args[0]
    if p.obj is None:
        eng.do_panic(st, 'nil pool')
    eng.sched_point(st, 'Pool.Get')
    names = _pool_fields(eng, fn)
    newfn = eng.load(st, Ptr(p.obj, p.path + (names.index('New'),)))
    pools = st.ghost.setdefault('pools', {})
    key = (p.obj, p.path)
    items = list(pools.get(key, ()))
    conts = []
    mode = eng.opts.get('pool_mode', 'all')   # all | hit (pooled item if any) | miss
    choices = []
    if mode in ('all', 'hit'):
        for i in range(len(items)):
            choices.append(i)
    if mode in ('all', 'miss') or not items:
        choices.append(-1)
    for n, i in enumerate(choices):
        s = st if n == len(choices) - 1 else st.clone()
        if i >= 0:
            pl = dict(s.ghost['pools'])
            it = list(pl[key])
            x = it.pop(i)
            pl[key] = tuple(it)
            s.ghost['pools'] = pl
            s.ghost.setdefault('choices', []).append('pool-hit')
            s.trace.append('Pool.Get=item%d' % i)
            eng.pool_acquire(s, x)
            s.frames[-1].regs[ins['reg']] = x
        else:
            s.ghost.setdefault('choices', []).append('pool-miss')
            s.trace.append('Pool.Get=New')
            if newfn is None:
                s.frames[-1].regs[ins['reg']] = None
            else:
                eng.push_call(s, newfn, [], ret_to=ins['reg'])
        conts.append(s)
    eng.fork_from(st, conts)


TABLE = {
    'math.Ceil': _round(z3.RTP(), _py_ceil),
    'math.Floor': _round(z3.RTN(), _py_floor),
    'math.Trunc': _round(z3.RTZ(), _py_trunc),
    'math.Round': _round(z3.RNA(), _py_round),
    'math.Abs': s_abs,
    'math.Min': _minmax(True),
    'math.Max': _minmax(False),
    'math.IsNaN': s_isnan,
    'math.IsInf': s_isinf,
    'math.Inf': s_inf,
    'math.NaN': s_nan,
    'math.Float64bits': s_f64bits,
    'math.Float32bits': s_f32bits,
    'reflect.ValueOf': s_reflect_valueof,
    '(reflect.Value).Elem': s_reflect_elem,
    '(reflect.Value).SetCap': s_reflect_setcap,
    '(reflect.Value).SetLen': s_reflect_setlen,
    '(reflect.Value).Len': s_reflect_len,
    '(reflect.Value).Cap': s_reflect_cap,
    '(*sync.Pool).Put': s_pool_put,
    '(*sync.Pool).Get': s_pool_get,
}


# ---- sync/atomic and sync.Mutex (scheduling points with acquire/release edges) --------------------
import re as _re


def _akey(p):
    return ('atomic', p.obj, tuple(x if isinstance(x, int) else ('s', x.get_id()) for x in p.path))


def _aget(eng, st, p, zero):
    return st.ghost.get('atomics', {}).get(_akey(p), zero)


def _aset(st, p, v):
    d = dict(st.ghost.get('atomics', {}))
    d[_akey(p)] = v
    st.ghost['atomics'] = d


def _atomic_zero(eng, fn, kind):
    if kind == 'Pointer':
        return NILPTR
    if kind == 'Bool':
        return False
    return 0


def _mk_atomic(kind, op):
    bits = {'Int32': (32, True), 'Int64': (64, True), 'Uint32': (32, False), 'Uint64': (64, False), 'Uintptr': (64, False)}.get(kind)

    def h(eng, st, fr, fn, args, ins):
        p = args[0]
        if p.obj is None:
            eng.do_panic(st, 'nil atomic')
        eng.sched_point(st, 'atomic.' + op)
        zero = _atomic_zero(eng, fn, kind)
        cur = _aget(eng, st, p, zero)
        if op == 'Load':
            eng.sync_acquire(st, _akey(p))
            return _ret(st, ins, cur)
        if op == 'Store':
            _aset(st, p, args[1])
            eng.sync_release(st, _akey(p))
            return
        eng.sync_acquire(st, _akey(p))
        if op == 'Swap':
            _aset(st, p, args[1])
            _ret(st, ins, cur)
        elif op == 'Add':
            from .engine import wrap
            if is_sym(cur) or is_sym(args[1]):
                raise Unsupported('atomic add of symbolic values')
            nv = wrap(cur + args[1], bits[0], bits[1])
            _aset(st, p, nv)
            _ret(st, ins, nv)
        elif op == 'CompareAndSwap':
            old, new = args[1], args[2]
            if kind == 'Pointer':
                same = eng.ptr_eq(cur, old)
            else:
                if is_sym(cur) or is_sym(old):
                    raise Unsupported('atomic CAS on symbolic values')
                same = cur == old
            if same not in (True, False):
                raise Unsupported('atomic CAS with symbolic pointer comparison')
            if same:
                _aset(st, p, new)
            _ret(st, ins, bool(same))
        else:
            raise Unsupported('atomic op ' + op)
        eng.sync_release(st, _akey(p))
    return h


def _mutex(op):
    def h(eng, st, fr, fn, args, ins):
        p = args[0]
        eng.sched_point(st, 'Mutex.' + op)
        held = st.ghost.get('atomics', {}).get(_akey(p))
        me = st.ghost.get('cur_thread', 0)
        if op in ('Lock', 'RLock'):
            if held is not None and held != me:
                raise PathEnd('pruned')   # the lock is taken later in some other schedule
            _aset(st, p, me)
            eng.sync_acquire(st, _akey(p))
        elif op == 'TryLock':
            ok = held is None
            if ok:
                _aset(st, p, me)
                eng.sync_acquire(st, _akey(p))
            _ret(st, ins, ok)
        else:
            _aset(st, p, None)
            eng.sync_release(st, _akey(p))
    return h


_ATOMIC_RE = _re.compile(r'^\(\*sync/atomic\.(Pointer|Int32|Int64|Uint32|Uint64|Uintptr|Bool)(\[.*\])?\)\.(Load|Store|Swap|Add|CompareAndSwap)(\[.*\])?$')
_MUTEX_RE = _re.compile(r'^\(\*sync\.(Mutex|RWMutex)\)\.(Lock|Unlock|RLock|RUnlock|TryLock)$')


def resolve(name):
    m = _ATOMIC_RE.match(name)
    if m:
        return _mk_atomic(m.group(1), m.group(3))
    m = _MUTEX_RE.match(name)
    if m:
        return _mutex(m.group(2))
    return None
