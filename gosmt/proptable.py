"""Per-property job tables: which harness instantiations run in which tier, with which bounds."""

INTS_S = ['int8', 'int16', 'int32', 'int64', 'int']
INTS_U = ['uint8', 'uint16', 'uint32', 'uint64', 'uint', 'uintptr']
FLOATS = ['float32', 'float64']
ALL = INTS_S + INTS_U + FLOATS
INTS = INTS_S + INTS_U
QUICK_T = ['int8', 'uint16', 'int64', 'float32', 'float64']


def ename(name, targs=()):
    if isinstance(targs, str):
        targs = (targs,)
    return name if not targs else '%s[%s]' % (name, ','.join(targs))


PROPS = {}


def prop(pid, **kw):
    PROPS[pid] = kw


def jobs(pid, tier):
    out = []
    for h in PROPS[pid]['harnesses']:
        h.setdefault('opts', PROPS[pid].get('opts', {}))
        tl = h['types'][tier] if isinstance(h['types'], dict) else h['types']
        params = dict(h.get('params', {}).get(tier, {}))
        for t in tl:
            opts = dict(h.get('opts', {}))
            opts['params'] = params
            out.append({'entry': ename(h['name'], t), 'opts': opts})
    return out


def required_covers(pid, entry):
    base = entry.split('[')[0]
    for h in PROPS[pid]['harnesses']:
        if h['name'] == base:
            return h.get('covers', [])
    return []


SHAPE_Q = {'MaxC': 3, 'MaxK': 3}
SHAPE_T = {'MaxC': 4, 'MaxK': 4}

prop('C16',
     harnesses=[
         {'name': 'C16_Bounds', 'types': [()]},
         {'name': 'C16_ClipSigned', 'types': [()]},
         {'name': 'C16_ClipUnsigned', 'types': [()]},
         {'name': 'C16_Scale', 'types': {'quick': ['int8', 'uint8', 'int32', 'uint64', 'int'], 'thorough': INTS}},
     ],
     bounds='all depths b in 1..64 (symbolic 8-bit), all 2^64 values v and w (symbolic), all pairs 1<=l<=h<=64 (symbolic) for which 2^(h-l) fits T; no loops, nothing unrolled',
     outside=['depth 0 and depths above 64 (outside the property)'])

prop('C04',
     harnesses=[{'name': 'C04_AppendSample', 'types': {'quick': QUICK_T, 'thorough': ALL},
                 'params': {'quick': dict(SHAPE_Q, MaxCalls=5), 'thorough': dict(SHAPE_T, MaxCalls=8)},
                 'covers': ['not-full', 'full']}],
     bounds={'quick': 'channels 1..3, capacity 0..3 frames, every window [s,e) of it (case split); up to 5 calls, at least 2 beyond capacity; all sample values and the witness position symbolic',
             'thorough': 'channels 1..4, capacity 0..4 frames, every window; up to 8 calls; all 13 element types'},
     outside=['more channels / frames than the bound', 'more calls than MaxCalls on one buffer'])

prop('C02',
     harnesses=[{'name': 'C02_Slice', 'types': {'quick': QUICK_T, 'thorough': ALL},
                 'params': {'quick': SHAPE_Q, 'thorough': SHAPE_T}, 'covers': ['panic', 'view']},
                {'name': 'C02_Nested', 'types': {'quick': ['int8', 'float64'], 'thorough': ALL},
                 'params': {'quick': SHAPE_Q, 'thorough': SHAPE_T}, 'covers': ['nested-nonempty']}],
     bounds={'quick': 'parent: every window of a buffer with 1..3 channels and 0..3 frames (case split); start,end: all 2^128 pairs of int values (symbolic); witness channel/frame/position and written values symbolic',
             'thorough': 'same with 1..4 channels, 0..4 frames, all 13 element types'},
     outside=['more channels / frames than the bound', 'nesting deeper than 2 (deeper nesting is the same composition applied again)'])

PAIRS_Q = [('int8', 'int8'), ('float64', 'float64'), ('float32', 'float64'), ('float64', 'float32'), ('int16', 'float64'),
           ('float64', 'int16'), ('uint8', 'int64'), ('int64', 'uint8'), ('uint16', 'uint16'), ('int32', 'float32'),
           ('uint64', 'float64'), ('float32', 'int8')]
PAIRS_ALL = [(a, b) for a in ALL for b in ALL]
C01_Q = {'MaxC': 3, 'MaxK': 2}
C01_T = {'MaxC': 3, 'MaxK': 3}

prop('C01', opts={'abstract_fp': True},
     harnesses=[
         {'name': 'C01_Write', 'types': {'quick': PAIRS_Q, 'thorough': PAIRS_ALL}, 'params': {'quick': C01_Q, 'thorough': C01_T},
          'covers': ['written', 'untouched']},
         {'name': 'C01_Read', 'types': {'quick': PAIRS_Q, 'thorough': PAIRS_ALL}, 'params': {'quick': C01_Q, 'thorough': C01_T},
          'covers': ['read', 'beyond']},
         {'name': 'C01_ReadKeepsBuffer', 'types': {'quick': PAIRS_Q[:4], 'thorough': PAIRS_Q}, 'params': {'quick': {'MaxC': 2, 'MaxK': 2}, 'thorough': C01_Q}},
         {'name': 'C01_WriteStriped', 'types': {'quick': PAIRS_Q[:6], 'thorough': PAIRS_ALL}, 'params': {'quick': C01_Q, 'thorough': C01_T},
          'covers': ['written', 'zero-filled', 'untouched']},
         {'name': 'C01_ReadStriped', 'types': {'quick': PAIRS_Q[:6], 'thorough': PAIRS_ALL}, 'params': {'quick': C01_Q, 'thorough': C01_T},
          'covers': ['read', 'beyond']},
         {'name': 'C01_RoundTrip', 'types': {'quick': PAIRS_Q[:6], 'thorough': PAIRS_ALL}, 'params': {'quick': C01_Q, 'thorough': C01_T}},
         {'name': 'C01_ChannelLength', 'types': [()], 'params': {'quick': {'MaxLemmaC': 4, 'MaxLemmaLen': 32}, 'thorough': {'MaxLemmaC': 8, 'MaxLemmaLen': 64}}},
     ],
     bounds={'quick': 'channels 1..3, capacity 0..2 frames, every window (case split), 0..C-1 extra samples (unaligned lengths, interleaved forms), caller slices of every length 0..C*K+2 / per-channel slices nil or 0..K+1 long; all sample values and witness positions symbolic; 12 element-type pairs',
             'thorough': 'channels 1..3, capacity 0..3 frames; all 169 element-type pairs'},
     outside=['more channels / frames than the bound', 'values not representable in both element types (excluded by the property)'])
