"""Per-property job tables: which harness instantiations run in which tier, with which bounds."""

INTS_S = ['int8', 'int16', 'int32', 'int64', 'int']
INTS_U = ['uint8', 'uint16', 'uint32', 'uint64', 'uint', 'uintptr']
FLOATS = ['float32', 'float64']
ALL = INTS_S + INTS_U + FLOATS
INTS = INTS_S + INTS_U
QUICK_T = ['int8', 'uint16', 'int64', 'float32', 'float64']


def ename(name, targs=()):
    if isinstance(targs, str):
        targs = (targs,)
    return name if not targs else '%s[%s]' % (name, ','.join(targs))


PROPS = {}


def prop(pid, **kw):
    PROPS[pid] = kw


def jobs(pid, tier):
    out = []
    for h in PROPS[pid]['harnesses']:
        h.setdefault('opts', PROPS[pid].get('opts', {}))
        tl = h['types'][tier] if isinstance(h['types'], dict) else h['types']
        params = dict(h.get('params', {}).get(tier, {}))
        splits = h.get('splits', {}).get(tier) if isinstance(h.get('splits'), dict) else h.get('splits')
        for t in tl:
            for fx in (splits or [None]):
                opts = dict(h.get('opts', {}))
                opts['params'] = params
                if fx:
                    opts['fix'] = fx
                out.append({'entry': ename(h['name'], t), 'opts': opts})
    return out


def required_covers(pid, entry):
    base = entry.split('[')[0]
    for h in PROPS[pid]['harnesses']:
        if h['name'] == base:
            return h.get('covers', [])
    return []


SHAPE_Q = {'MaxC': 3, 'MaxK': 3}
SHAPE_T = {'MaxC': 4, 'MaxK': 4}

prop('C16',
     harnesses=[
         {'name': 'C16_Bounds', 'types': [()]},
         {'name': 'C16_ClipSigned', 'types': [()]},
         {'name': 'C16_ClipUnsigned', 'types': [()]},
         {'name': 'C16_Scale', 'types': {'quick': ['int8', 'uint8', 'int32', 'uint64', 'int'], 'thorough': INTS}},
         {'name': 'C16_ScaleHistory', 'types': {'quick': [('int8', 'int16'), ('int8', 'uint16'), ('int16', 'int64')],
                                                'thorough': [('int8', 'int16'), ('int8', 'uint16'), ('int16', 'int64'), ('int32', 'uint64'), ('int8', 'int8'), ('uint8', 'int32'), ('int16', 'int32'), ('int32', 'int')]},
          'covers': ['fits']},
     ],
     bounds='all depths b in 1..64 (symbolic 8-bit), all 2^64 values v and w (symbolic), all pairs 1<=l<=h<=64 (symbolic) for which 2^(h-l) fits T; no loops, nothing unrolled',
     outside=['depth 0 and depths above 64 (outside the property)'])

prop('C04',
     harnesses=[{'name': 'C04_AppendSample', 'types': {'quick': QUICK_T, 'thorough': ALL},
                 'params': {'quick': dict(SHAPE_Q, MaxCalls=5), 'thorough': dict(SHAPE_T, MaxCalls=8)},
                 'covers': ['not-full', 'full']},
                {'name': 'C04_AfterGrowth', 'types': {'quick': ['int8', 'int16', 'float64'], 'thorough': ALL},
                 'params': {'quick': {'MaxC': 3}, 'thorough': {'MaxC': 7}}, 'covers': ['not-full', 'full']}],
     bounds={'quick': 'channels 1..3, capacity 0..3 frames, every window [s,e) of it (case split); up to 5 calls, at least 2 beyond capacity; all sample values and the witness position symbolic',
             'thorough': 'channels 1..4, capacity 0..4 frames, every window; up to 8 calls; all 13 element types'},
     outside=['more channels / frames than the bound', 'more calls than MaxCalls on one buffer'])

prop('C02',
     harnesses=[{'name': 'C02_Slice', 'types': {'quick': QUICK_T, 'thorough': ALL},
                 'params': {'quick': SHAPE_Q, 'thorough': SHAPE_T}, 'covers': ['panic', 'view']},
                {'name': 'C02_Nested', 'types': {'quick': ['int8', 'float64'], 'thorough': ALL},
                 'params': {'quick': SHAPE_Q, 'thorough': SHAPE_T}, 'covers': ['nested-nonempty']}],
     bounds={'quick': 'parent: every window of a buffer with 1..3 channels and 0..3 frames (case split); start,end: all 2^128 pairs of int values (symbolic); witness channel/frame/position and written values symbolic',
             'thorough': 'same with 1..4 channels, 0..4 frames, all 13 element types'},
     outside=['more channels / frames than the bound', 'nesting deeper than 2 (deeper nesting is the same composition applied again)'])

PAIRS_Q = [('int8', 'int8'), ('float64', 'float64'), ('float32', 'float64'), ('float64', 'float32'), ('int16', 'float64'),
           ('float64', 'int16'), ('uint8', 'int64'), ('int64', 'uint8'), ('uint16', 'uint16'), ('int32', 'float32'),
           ('uint64', 'float64'), ('float32', 'int8'), ('float64', 'uint8'), ('float32', 'uint16')]
PAIRS_ALL = [(a, b) for a in ALL for b in ALL]
C01_Q = {'MaxC': 3, 'MaxK': 2}
C01_T = {'MaxC': 3, 'MaxK': 3}

prop('C01', opts={'abstract_fp': True},
     harnesses=[
         {'name': 'C01_Write', 'types': {'quick': PAIRS_Q, 'thorough': PAIRS_ALL}, 'params': {'quick': C01_Q, 'thorough': C01_Q},
          'covers': ['written', 'untouched']},
         {'name': 'C01_Read', 'types': {'quick': PAIRS_Q, 'thorough': PAIRS_ALL}, 'params': {'quick': C01_Q, 'thorough': C01_Q},
          'covers': ['read', 'beyond']},
         {'name': 'C01_ReadKeepsBuffer', 'types': {'quick': PAIRS_Q[:4], 'thorough': PAIRS_Q}, 'params': {'quick': {'MaxC': 2, 'MaxK': 2}, 'thorough': C01_Q}},
         {'name': 'C01_WriteStriped', 'types': {'quick': PAIRS_Q[:6] + PAIRS_Q[12:], 'thorough': PAIRS_ALL}, 'params': {'quick': C01_Q, 'thorough': C01_Q},
          'covers': ['written', 'zero-filled', 'untouched']},
         {'name': 'C01_ReadStriped', 'types': {'quick': PAIRS_Q[:6], 'thorough': PAIRS_ALL}, 'params': {'quick': C01_Q, 'thorough': C01_Q},
          'covers': ['read', 'beyond']},
         {'name': 'C01_RoundTrip', 'types': {'quick': PAIRS_Q[:6], 'thorough': PAIRS_ALL}, 'params': {'quick': C01_Q, 'thorough': C01_T}},
         {'name': 'C01_Write', 'types': {'quick': [], 'thorough': PAIRS_Q}, 'params': {'thorough': C01_T}},
         {'name': 'C01_Read', 'types': {'quick': [], 'thorough': PAIRS_Q}, 'params': {'thorough': C01_T}},
         {'name': 'C01_WriteStriped', 'types': {'quick': [], 'thorough': PAIRS_Q[:6]}, 'params': {'thorough': C01_T}},
         {'name': 'C01_ReadStriped', 'types': {'quick': [], 'thorough': PAIRS_Q[:6]}, 'params': {'thorough': C01_T}},
         {'name': 'C01_ChannelLength', 'types': [()], 'params': {'quick': {'MaxLemmaC': 4, 'MaxLemmaLen': 32}, 'thorough': {'MaxLemmaC': 8, 'MaxLemmaLen': 64}}},
     ],
     bounds={'quick': 'channels 1..3, capacity 0..2 frames, every window (case split), 0..C-1 extra samples (unaligned lengths, interleaved forms), caller slices of every length 0..C*K+2 / per-channel slices nil or 0..K+1 long; all sample values and witness positions symbolic; 14 element-type pairs',
             'thorough': 'all 169 element-type pairs at channels 1..3, capacity 0..2 frames; 14 (striped: 6) representative pairs additionally at capacity 0..3 frames; ChannelLength for C<=8, n<=64'},
     outside=['more channels / frames than the bound', 'values not representable in both element types (excluded by the property)'])

FAMS = {'Float': FLOATS, 'Signed': INTS_S, 'Unsigned': INTS_U}
CONVS = ['%sAs%s' % (a, b) for a in FAMS for b in FAMS]


def conv_pairs(fn, quick):
    sf, df = fn.split('As')
    if not quick:
        return [(a, b) for a in FAMS[sf] for b in FAMS[df]]
    q = {'Float': ['float32', 'float64'], 'Signed': ['int8', 'int64'], 'Unsigned': ['uint16', 'uint64']}
    prs = [(a, b) for a in q[sf] for b in q[df]]
    return prs[:2] if quick == 1 else prs


NARROW_WIDE = {'Float': ('float32', 'float64'), 'Signed': ('int8', 'int64'), 'Unsigned': ('uint8', 'uint64')}


def big_pairs(fn):
    sf, df = fn.split('As')
    return [(NARROW_WIDE[sf][0], NARROW_WIDE[df][0]), (NARROW_WIDE[sf][1], NARROW_WIDE[df][1])]


prop('C03',
     harnesses=[
         {'name': 'C03_Append', 'types': {'quick': QUICK_T + ['uintptr', 'NamedInt16'], 'thorough': ALL + ['NamedInt16', 'NamedUint8', 'NamedFloat32']},
          'params': {'quick': {'MaxC': 3, 'MaxK': 3, 'MaxKS': 2}, 'thorough': {'MaxC': 4, 'MaxK': 4, 'MaxKS': 4}}, 'covers': ['in-place', 'grown']},
         {'name': 'C03_SelfAppend', 'types': {'quick': QUICK_T, 'thorough': ALL},
          'params': {'quick': {'MaxC': 3, 'MaxK': 3}, 'thorough': {'MaxC': 4, 'MaxK': 4}}, 'covers': ['self-nonempty']},
         {'name': 'C03_ThenOther', 'types': {'quick': ['int8', 'float64'], 'thorough': QUICK_T},
          'params': {'quick': {'MaxC': 2, 'MaxK': 3}, 'thorough': {'MaxC': 3, 'MaxK': 4}}, 'covers': ['second-growth'], 'opts': {'pool_mode': 'all'}},
         {'name': 'C03_Twice', 'types': {'quick': ['int8', 'float64'], 'thorough': ALL},
          'params': {'quick': {'MaxC': 2, 'MaxK': 2, 'MaxKS': 2}, 'thorough': {'MaxC': 3, 'MaxK': 3, 'MaxKS': 3}}},
         {'name': 'C03_AppendBig', 'types': {'quick': ['int16', 'float64'], 'thorough': QUICK_T},
          'params': {'quick': {'MaxC': 3, 'BigFrames': 300}, 'thorough': {'MaxC': 4, 'BigFrames': 1000}}, 'covers': ['in-place', 'grown']},
     ],
     bounds={'quick': 'destination: every window of a buffer with 1..3 channels and 0..3 frames; source: every window of a second buffer with 0..2 frames (other storage) or the destination itself; growth capacity = go1.23 growslice model; sample values and witness positions symbolic; large regime (C03_AppendBig): a 300-frame destination (full or with 37 spare frames), 1..3 channels, source of 1, 75, 150, 225, 299, 300, 400 or 601 frames, the last destination and last source sample symbolic',
             'thorough': 'destination 1..4 channels, 0..4 frames; source 0..4 frames; all 13 element types; large regime: 1000-frame destination, 1..4 channels, same eight source fractions'},
     outside=['sources overlapping the destination spare capacity (excluded by the property, other than self-append)', 'capacities chosen by Go releases other than the modelled growslice', 'larger shapes'])

HUGE = 65543

prop('C05', opts={'abstract_fp': True},
     harnesses=[{'name': 'C05_' + fn, 'types': {'quick': conv_pairs(fn, 1), 'thorough': conv_pairs(fn, 0)},
                 'params': {'quick': {'MaxC': 2, 'MaxK': 2, 'Unaligned': 1}, 'thorough': {'MaxC': 2, 'MaxK': 2, 'Unaligned': 1}},
                 'covers': ['converted', 'untouched']} for fn in CONVS] +
     [{'name': 'C05_' + fn, 'types': {'quick': [], 'thorough': conv_pairs(fn, 1)[:1]},
       'params': {'thorough': {'MaxC': 3, 'MaxK': 1, 'Unaligned': 1}}} for fn in CONVS] +
     [{'name': 'C05_Big_' + fn, 'types': {'quick': big_pairs(fn), 'thorough': conv_pairs(fn, 2) + big_pairs(fn)},
       'params': {'quick': {'BigFrames': 600}, 'thorough': {'BigFrames': 2048}}, 'covers': ['big']} for fn in CONVS] +
     # past 2^16 samples (size-dependent paths, library-internal goroutines): 65543 is prime, so no worker count divides it
     [{'name': 'C05_Big_' + fn, 'types': {'quick': [], 'thorough': big_pairs(fn)[:1]}, 'params': {'thorough': {'BigFrames': HUGE}},
       'splits': [{'C': 1, 'at': 2}, {'C': 2, 'at': 2}, {'C': 1, 'at': 1}], 'opts': {'abstract_fp': True, 'max_make': 1 << 17, 'max_instr': 40_000_000}, 'covers': ['big']} for fn in CONVS] +
     [{'name': 'C05_FloatAsFloatValue', 'types': [(a, b) for a in FLOATS for b in FLOATS], 'opts': {'abstract_fp': False}}],
     bounds={'quick': 'source and destination: every window of buffers with 1..2 channels and 0..2 frames, plus 0..C-1 extra samples on either side (unaligned lengths); sample values and witness positions symbolic; 2 type pairs per conversion; FloatAsFloat value preservation for all float32/float64 bit patterns (4 pairs)',
             'thorough': 'all 169 instantiations at 1..2 channels, 0..2 frames; 1 pair per conversion at 3 channels, 0..1 frames; 2048-frame buffers for 4-6 pairs per conversion; 65543-sample buffers (1 and 2 channels, one symbolic sample in the middle or at the end) for 1 pair per conversion, GOMAXPROCS stubbed to 4'},
     outside=['larger shapes', 'value-level behaviour of the eight fixed-point conversions (C06-C09)'])

NAMED = ['NamedInt8', 'NamedInt16', 'NamedInt32', 'NamedInt64', 'NamedInt', 'NamedUint8', 'NamedUint16', 'NamedUint32',
         'NamedUint64', 'NamedUint', 'NamedUintptr', 'NamedFloat32', 'NamedFloat64']
prop('C13', opts={'lazy_make': True},
     harnesses=[{'name': 'C13_Alloc', 'types': {'quick': QUICK_T + ['uintptr', 'NamedInt8', 'NamedUint16', 'NamedFloat32', 'NamedInt'], 'thorough': ALL + NAMED},
                 'params': {'quick': {'MaxAllocC': 8, 'MaxAllocK': 4096}, 'thorough': {'MaxAllocC': 64, 'MaxAllocK': 65536}}, 'covers': ['nonempty']},
                {'name': 'C13_Small', 'types': {'quick': ['int32', 'float64', 'uintptr', 'NamedInt16', 'NamedUintptr'], 'thorough': ALL + NAMED}, 'covers': ['small'],
                 'opts': {'lazy_make': False, 'fallbacks': 24}},
                {'name': 'C13_History', 'types': {'quick': ['int8', 'float32'], 'thorough': ALL + NAMED[:4]}, 'covers': ['grown-empty', 'pool-released', 'filled-twin'],
                 'opts': {'lazy_make': False, 'fallbacks': 24, 'pool_mode': 'all'}},
                {'name': 'C13_Length', 'types': {'quick': ['int8', 'float64'], 'thorough': QUICK_T},
                 'params': {'quick': {'MaxLemmaC': 3, 'MaxLemmaK': 8}, 'thorough': {'MaxLemmaC': 4, 'MaxLemmaK': 16}}}],
     bounds={'quick': 'channels 1..8 (case split), 0 <= L <= K <= 4096 symbolic, witness positions symbolic over the whole capacity; 6 built-in (incl. uintptr) and 5 named element types; per-channel Length() (floating-point ceil) for C<=3, K<=8',
             'thorough': 'channels 1..64, 0 <= L <= K <= 65536 symbolic; all 13 built-in and 13 named element types; Length() for C<=4, K<=16'},
     outside=['Length() beyond the small bound (its floating-point division is checked exactly only there)', 'C = 0 (C20)', 'K beyond the bound'])

prop('C14',
     harnesses=[{'name': 'C14_Channel', 'types': {'quick': QUICK_T, 'thorough': ALL},
                 'params': {'quick': {'MaxC': 4, 'MaxK': 3}, 'thorough': {'MaxC': 8, 'MaxK': 3}}, 'covers': ['nonempty']},
                {'name': 'C14_Follows', 'types': {'quick': ['int8', 'float64'], 'thorough': ALL},
                 'params': {'quick': {'MaxC': 3, 'MaxK': 3}, 'thorough': {'MaxC': 4, 'MaxK': 3}}, 'covers': ['grown']},
                {'name': 'C14_FollowsGrowth', 'types': {'quick': ['int8', 'float64'], 'thorough': ALL},
                 'params': {'quick': {'MaxC': 3}, 'thorough': {'MaxC': 4}}, 'covers': ['moved']}],
     bounds={'quick': 'parents: every window of a buffer with 1..4 channels and 0..3 frames; every channel; index and witness position symbolic', 'thorough': '1..8 channels; all 13 element types'},
     outside=['larger shapes'])

prop('C15', opts={'abstract_fp': True},
     harnesses=[{'name': 'C15_' + fn, 'types': {'quick': conv_pairs(fn, 1), 'thorough': conv_pairs(fn, 2)},
                 'params': {'quick': {'MaxC15': 4, 'MaxK15': 1}, 'thorough': {'MaxC15': 4, 'MaxK15': 2}}} for fn in CONVS] +
     [{'name': 'C15_Append', 'types': {'quick': ['int8', 'float64'], 'thorough': QUICK_T}, 'params': {'quick': {'MaxC15': 4, 'MaxK15': 1}, 'thorough': {'MaxC15': 4, 'MaxK15': 2}}},
      {'name': 'C15_ReadStriped', 'types': {'quick': PAIRS_Q[:3], 'thorough': PAIRS_Q}, 'params': {'quick': {'MaxC15': 4, 'MaxK15': 1}, 'thorough': {'MaxC15': 4, 'MaxK15': 2}}},
      {'name': 'C15_WriteStriped', 'types': {'quick': PAIRS_Q[:3], 'thorough': PAIRS_Q}, 'params': {'quick': {'MaxC15': 4, 'MaxK15': 1}, 'thorough': {'MaxC15': 4, 'MaxK15': 2}}},
      {'name': 'C15_Put', 'types': {'quick': ['int8', 'float64'], 'thorough': QUICK_T}, 'opts': {'pool_mode': 'all'}}],
     bounds={'quick': 'every ordered pair of different channel counts 1..4 (slice counts 0..5), 1 frame, recognisable (symbolic) contents, witness positions symbolic; one type pair per conversion',
             'thorough': 'channel counts 1..4 (slice counts 0..5), 1..2 frames; 4 type pairs per conversion'},
     outside=['larger shapes'])

prop('C20', opts={'abstract_fp': True},
     harnesses=[{'name': 'C20_ZeroChannels', 'types': {'quick': ['int8', 'uint16', 'float64'], 'thorough': ALL}},
                {'name': 'C20_ChannelLength', 'types': [()], 'opts': {'abstract_fp': False}},
                {'name': 'C20_ZeroCapacity', 'types': {'quick': ['int8', 'uint16', 'float64'], 'thorough': ALL}},
                {'name': 'C20_Pool', 'types': {'quick': ['int8', 'float64'], 'thorough': ALL}},
                {'name': 'C20_ZeroLengthIO', 'types': {'quick': ['int8', 'uint16', 'float64'], 'thorough': ALL}},
                {'name': 'C20_PooledZeroLength', 'types': {'quick': ['int8', 'float64'], 'thorough': ALL}, 'opts': {'abstract_fp': True, 'pool_mode': 'all'}}] +
     [{'name': 'C20_' + fn, 'types': {'quick': conv_pairs(fn, 1)[:1], 'thorough': conv_pairs(fn, 2)}} for fn in CONVS],
     bounds='zero channels with every requested length/capacity 0..3; zero capacity with 1..3 channels; zero-length windows at every frame of a 2-frame buffer; ChannelLength(n,0) for every int n (symbolic); all nine conversions in the four degenerate configurations',
     outside=['Alloc with Length > Capacity (make panics; outside Alloc contract)'])

IFAMS = {'Signed': INTS_S, 'Unsigned': INTS_U}
IQ = {'Signed': ['int8', 'int32', 'int64', 'int'], 'Unsigned': ['uint8', 'uint16', 'uint64', 'uintptr']}


def ipairs(sf, df, quick):
    src = IQ if quick else IFAMS
    return [(a, b) for a in src[sf] for b in src[df]]


prop('C06',
     harnesses=[{'name': 'C06_%sAs%s' % (a, b), 'types': {'quick': ipairs(a, b, True), 'thorough': ipairs(a, b, False)}} for a in IFAMS for b in IFAMS],
     bounds={'quick': 'every pair of source samples over the full width of the source type (2 symbolic samples; 64-bit sources included in full, not sampled), 64 element-type pairs, both as two frames of a mono buffer and as one two-channel frame; buffers of 1 channel x 2 frames; bit depths and scales are concrete after partial evaluation',
             'thorough': 'same for all 121 signed/unsigned element-type pairs'},
     outside=['buffers with more frames/channels (position-wise behaviour is C05)'])

prop('C07',
     harnesses=[{'name': 'C07_%sAs%s' % (a, b), 'types': {'quick': ipairs(a, b, True), 'thorough': ipairs(a, b, False)}} for a in IFAMS for b in IFAMS] +
     [{'name': 'C07_RT_%s%s' % (a, b), 'types': {'quick': ipairs(a, b, True), 'thorough': ipairs(a, b, False)}} for a in IFAMS for b in IFAMS],
     bounds={'quick': 'every source sample over the full width (symbolic); narrowing and equal-depth pairs among 64 element-type pairs; widening pairs composed with the narrowing function that returns to the original format',
             'thorough': 'all 121 pairs'},
     outside=['buffers with more frames/channels (position-wise behaviour is C05)'])



def BIGCYCLE(pid):
    # get / dirty / put / get on pooled buffers past 2^12 (quick) and 2^16 (thorough) samples: size-dependent paths of Put
    return {'name': pid + '_BigCycle', 'types': {'quick': ['int16'] if pid == 'C10' else [], 'thorough': ['int8', 'float64']},
            'params': {'quick': {'HugeSamples': 4100}, 'thorough': {'HugeSamples': HUGE}},
            'splits': [{'C': c, 'at': a} for c in (1, 2) for a in (0, 1, 2)],
            'opts': {'threads': True, 'pool_mode': 'all', 'max_make': 1 << 17, 'max_instr': 40_000_000}, 'covers': ['big-cycle']}


prop('C10',
     harnesses=[{'name': 'C10_Cycle', 'types': {'quick': ['int8', 'uint16', 'float64'], 'thorough': ALL},
                 'params': {'quick': {'MaxPoolC': 3, 'MaxPoolK': 2}, 'thorough': {'MaxPoolC': 3, 'MaxPoolK': 3}},
                 'covers': ['use-write', 'use-append-sample', 'use-append', 'use-shorter-slice', 'use-longer-slice']},
                {'name': 'C10_TwoCycles', 'types': {'quick': ['int8', 'float64'], 'thorough': QUICK_T},
                 'params': {'quick': {'MaxPoolC': 2, 'MaxPoolK': 1}, 'thorough': {'MaxPoolC': 2, 'MaxPoolK': 2}}},
                BIGCYCLE('C10')],
     bounds={'quick': 'allocators with 1..3 channels, capacity 0..2 frames, every length 0..capacity; one inductive step get/arbitrary use/put/get where use = overwrite the whole capacity with symbolic samples then one of {nothing, 1..C+1 single-sample appends, buffer append of 0..2 frames, frame-0 reslice shorter, frame-0 reslice longer}; sync.Pool modelled as a multiset whose Get returns any pooled item or a new one; two-buffer variant with capacity <= 1 frame',
             'thorough': '1..3 channels, capacity 0..3 frames; all 13 element types; two-buffer variant up to 2 frames; one get/dirty/put/get cycle on 65543-sample buffers (quick: 4100), 1..2 channels, symbolic dirt at the start, middle or end'},
     level_note='One inductive step from an arbitrary reachable buffer state covers histories of any length provided every pooled buffer is fresh (that is what the step re-establishes); the two-cycle harness is a sanity unrolling.',
     outside=['sync.Pool internals (modelled, not verified)', 'larger shapes'])

prop('C12',
     harnesses=[{'name': 'C12_Step', 'types': {'quick': ['int8', 'float64'], 'thorough': ['int8', 'int64', 'float32']},
                 'splits': [{'s1.op': o, 'C': c} for o in range(5) for c in (1, 2, 3)],
                 'params': {'quick': {'MaxC': 2, 'MaxK': 2, 'MaxKB': 1, 'Views': 1}, 'thorough': {'MaxC': 3, 'MaxK': 3, 'MaxKB': 1, 'Views': 1}},
                 'covers': ['op-slice', 'op-append-sample', 'op-append', 'op-append-overlapping-source', 'op-set-sample', 'op-write', '@append-grow', '@append-inplace']},
                {'name': 'C12_AppendAliased', 'types': {'quick': ['int8', 'float64'], 'thorough': QUICK_T},
                 'params': {'quick': {'MaxC': 2, 'MaxK': 3}, 'thorough': {'MaxC': 3, 'MaxK': 4}}, 'covers': ['source-overlaps-spare-capacity']},
                {'name': 'C12_Chain', 'types': {'quick': ['int8'], 'thorough': ['int8', 'float64']},
                 'splits': [{'s0.op': o, 'C': c} for o in range(5) for c in (1, 2)],
                 'params': {'quick': {'MaxC': 2, 'MaxK': 1, 'MaxKB': 1, 'Views': 0, 'Depth': 2}, 'thorough': {'MaxC': 2, 'MaxK': 2, 'MaxKB': 1, 'Views': 0, 'Depth': 2}}}],
     bounds={'quick': 'state: storage A with 1..2 channels and 0..2 frames seen through its full view and 1 arbitrary window (overlap allowed), storage B with 0..1 frames and one window, each window with 0..C-1 extra samples; one operation chosen from {Slice (start,end within -1..capacity+1), AppendSample, Append(vi<-vj) for every ordered pair incl. i=j and cross-storage, SetSample (index -1..len), Write (0..len+1 samples)} applied to the real buffers and to a reference model of plain Go slices; every view compared (len, cap, one symbolic position of its full capacity); Append between two arbitrary windows of one storage with 0..3 frames (every overlap, self-append); chained variant: depth 2 over a smaller state',
             'thorough': 'A: 1..3 channels, 0..3 frames, 1 window; aliased append between two windows with 0..4 frames; chain depth 2 over A with 0..2 frames (full view plus the views created on the way)'},
     level_note='The reference model uses Go append/copy/slice expressions, which are primitives of the encoder (and of the native replay), so growth capacities agree by construction. Append is compared only for frame-aligned operands (what capacity trimming does to an unaligned total is specified nowhere); sources overlapping the destination spare capacity are included (Go append has copy semantics).',
     outside=['more than 4 live views / larger shapes', 'Append with unaligned lengths (unspecified)', 'more than one growth per step'])

prop('C18', opts={'abstract_fp': True, 'pool_mode': 'hit'},
     harnesses=[{'name': 'C18_Ops', 'types': {'quick': ['int8', 'uint64', 'float32', 'float64'], 'thorough': ALL},
                 'params': {'quick': {'MaxC': 2, 'MaxK': 2}, 'thorough': {'MaxC': 3, 'MaxK': 2}},
                 'splits': [{'op': o} for o in range(8)],
                 'covers': ['get-set', 'append-sample', 'read-write', 'striped', 'append-within-capacity', 'channel-view', 'slice', 'pool-cycle']}] +
     [{'name': 'C18_' + fn, 'types': {'quick': conv_pairs(fn, 1)[:1], 'thorough': conv_pairs(fn, 2)},
       'params': {'quick': {'MaxC': 2, 'MaxK': 2}, 'thorough': {'MaxC': 2, 'MaxK': 2}}} for fn in CONVS] +
     [{'name': 'C18_Big_' + fn, 'types': {'quick': big_pairs(fn), 'thorough': conv_pairs(fn, 2) + big_pairs(fn)},
       'params': {'quick': {'BigFrames': 300}, 'thorough': {'BigFrames': 2048}}, 'covers': ['big']} for fn in CONVS] +
     [{'name': 'C18_BigIO', 'types': {'quick': ['int8', 'float64'], 'thorough': QUICK_T},
       'params': {'quick': {'BigFrames': 300}, 'thorough': {'BigFrames': 2048}}, 'covers': ['big']}],
     bounds={'quick': 'every window of a buffer with 1..2 channels and 0..2 frames; input slices of every length; symbolic sample values; each operation group run once inside an allocation counter (appends within capacity also with partly filled last frames); pool cycle with the pooled buffer handed back (steady state); long buffers (255, 257 and 300 samples per run, thorough 2048 frames) for all conversions and reads/writes',
             'thorough': '1..3 channels, 0..2 frames; all 13 element types; 4-6 type pairs per conversion; long buffers of 2048 frames'},
     level_text='Symbolic execution of the real code with a ghost allocation counter: every SSA instruction that can allocate (make with non-zero capacity, growing append, heap-flagged Alloc, closure with bindings, boxing of a non-pointer value) executed inside the measured region is counted on every feasible path within the bounds; a candidate is reported only if the native build measures an allocation too (runtime.MemStats) on the replayed input.',
     level_note='Heap allocation is finally decided by the gc compiler (escape analysis, inlining), which works on a different IR: the SSA-level rule can miss an allocation the compiler introduces (e.g. a large local moved to the heap) - outside the claim - and candidates the compiler optimises away are filtered by the native measurement, so they never raise an alarm.',
     outside=['allocation decisions of the gc compiler beyond the SSA-level rule', 'lengths beyond the bound (no size-dependent allocation site exists on these paths)'])

prop('C19', opts={'threads': True, 'abstract_fp': True}, race_replay=True,
     harnesses=[{'name': 'C19_Readers', 'types': {'quick': ['int8', 'float64'], 'thorough': QUICK_T},
                 'splits': [{'C': c, 'K': k} for c in (1, 2) for k in (1, 2)],
                 'params': {'quick': {'MaxC': 2, 'MaxK': 2, 'Readers': 2}, 'thorough': {'MaxC': 2, 'MaxK': 2, 'Readers': 2}}, 'covers': ['joined', '@par-joined']},
                {'name': 'C19_Readers', 'types': {'quick': [], 'thorough': ['int8', 'float64']},
                 'splits': [{'C': c, 'K': 1, 'w.s': 0} for c in (1, 2)],
                 'params': {'thorough': {'MaxC': 2, 'MaxK': 1, 'Readers': 3}}, 'covers': ['joined']},
                {'name': 'C19_Writers', 'types': {'quick': ['int8', 'float64'], 'thorough': QUICK_T},
                 'splits': {'quick': [{'C': c} for c in (1, 2)], 'thorough': [{'C': c, 'K': k} for c in (1, 2, 3) for k in (1, 2)]},
                 'params': {'quick': {'MaxC': 2, 'MaxK': 2}, 'thorough': {'MaxC': 3, 'MaxK': 2}}, 'covers': ['joined', '@par-joined']},
                # bulk reads of a shared buffer past 2^12 (quick) / 2^16 (thorough) samples: size-dependent paths, library-internal goroutines
                {'name': 'C19_BigStriped', 'types': {'quick': ['int16'], 'thorough': ['int8', 'float64']},
                 'splits': [{'at': a} for a in (0, 1, 2)], 'params': {'quick': {'HugeSamples': 4100}, 'thorough': {'HugeSamples': HUGE}},
                 'opts': {'threads': True, 'abstract_fp': True, 'max_make': 1 << 17, 'max_instr': 40_000_000}, 'covers': ['joined']}] +
     [{'name': 'C19_Conv_' + fn, 'types': {'quick': big_pairs(fn)[:1], 'thorough': conv_pairs(fn, 2) + big_pairs(fn)},
       'params': {'quick': {'MaxC': 2, 'MaxK': 2}, 'thorough': {'MaxC': 2, 'MaxK': 2}}, 'covers': ['joined']} for fn in CONVS],
     bounds={'quick': 'conversion sources: 2 goroutines converting one shared window into their own destinations (all nine conversions); readers: 2 goroutines, each running every read-only entry point (getters, Sample, Read, ReadStriped, Slice, Channel view, BufferIndex) with arbitrary arguments on one shared window of a buffer with 1..2 channels, 1..2 frames; writers: frame ranges [0,a) [a,b) [b,K) for every a<=b<=K<=2, two writers (Write / WriteStriped / SetSample loops / channel-view SetSample) and one reader; all orders of the goroutines; every pair of logged accesses checked for an unordered conflict',
             'thorough': '2 readers for 5 element types; 3 readers on 1-frame buffers; writers with 1..3 channels and 1..2 frames; 4 type pairs per conversion source; a striped and an interleaved bulk read running concurrently on a shared 2-channel buffer of 65542 samples (quick: 4100), GOMAXPROCS stubbed to 4'},
     level_note='Goroutines contain no synchronisation, so every cross-goroutine access pair is concurrent: race freedom is decided by a solver query per pair of accesses to the same object (can the two index expressions be equal?), results are compared with the sequential run. 16 goroutines add no pair types beyond those of 2-3 goroutines running the same entry points but are formally outside the bound.',
     outside=['more than 3 goroutines', 'larger shapes'])

prop('C11', opts={'threads': True, 'pool_mode': 'all'}, race_replay=True, stress_replay=True,
     harnesses=[{'name': 'C11_Workers', 'types': {'quick': ['int8', 'float64'], 'thorough': ['int8', 'uint16', 'float64']},
                 'splits': [{'by-value': b, 'C': c, 'K': k} for b in (0, 1) for c in (1, 2) for k in (0, 1)],
                 'params': {'quick': {'MaxPoolC': 2, 'MaxPoolK': 1, 'G': 2, 'M': 1}, 'thorough': {'MaxPoolC': 2, 'MaxPoolK': 1, 'G': 3, 'M': 1}}, 'covers': ['joined', '@par-joined']},
                {'name': 'C11_Workers', 'types': {'quick': ['int8'], 'thorough': ['int8', 'float64']},
                 'splits': [{'by-value': b, 'C': c, 'K': k, 'L': l} for b in (0, 1) for c in (1, 2) for k in (0, 1) for l in (0, 1)],
                 'params': {'quick': {'MaxPoolC': 1, 'MaxPoolK': 1, 'G': 2, 'M': 2}, 'thorough': {'MaxPoolC': 2, 'MaxPoolK': 1, 'G': 2, 'M': 2}}, 'covers': ['joined']},
                BIGCYCLE('C11')],
     bounds={'quick': 'G=2 goroutines x M=1 cycle (allocators with 1..2 channels, capacity 0..1 frame, every length) and G=2 x M=2 (1 channel, capacity 0..1); allocator shared by pointer and by value copies; every interleaving of the pool operations (scheduling points: Pool.Get, Pool.Put, the moment before a goroutine gives up its buffer, goroutine start/end) and every pool outcome (any pooled buffer, or a new one as after a GC); per path: exclusivity at every Get, freshness, stamp integrity, and a solver query for every unordered conflicting access pair',
             'thorough': 'G=3 x M=1 and G=2 x M=2 with 1..2 channels; one single-goroutine cycle on 65543-sample buffers (size-dependent paths of Put, library-internal goroutines race-checked, GOMAXPROCS stubbed to 4)'},
     level_note='sync.Pool itself (per-P caches, victim cache, atomics), the Go scheduler and the garbage collector are not encoded: they are replaced by a linearizable multiset whose Get may return any pooled item or a freshly allocated one, with the documented Put->Get happens-before edge. GOMAXPROCS and forced GCs of the property are subsumed by that nondeterminism; G up to 64 is reduced to G<=3. Segments between pool operations run atomically, justified by the race check itself (DRF-SC).',
     outside=['sync.Pool internals, scheduler, GC', 'G > 3 goroutines, M > 2 cycles', 'larger buffers'])

F2I = [('FloatAsSigned', INTS_S), ('FloatAsUnsigned', INTS_U)]
F2I_Q = {'FloatAsSigned': [('float64', 'int8'), ('float64', 'int16'), ('float32', 'int32'), ('float64', 'int64'), ('float32', 'int')],
         'FloatAsUnsigned': [('float32', 'uint8'), ('float64', 'uint16'), ('float64', 'uint32'), ('float32', 'uint64'), ('float64', 'uintptr')]}


def f2i_pairs(fn, ints, quick):
    return F2I_Q[fn] if quick else [(a, b) for a in FLOATS for b in ints]


prop('C08',
     harnesses=[{'name': 'C08_Clip_' + fn, 'splits': {'quick': [{'layout': 0}], 'thorough': [{'layout': 0}, {'layout': 1}]},
                 'types': {'quick': f2i_pairs(fn, ints, True), 'thorough': f2i_pairs(fn, ints, False)}} for fn, ints in F2I] +
     [{'name': 'C08_ClipAt_' + fn, 'types': {'quick': f2i_pairs(fn, ints, True)[:2], 'thorough': f2i_pairs(fn, ints, True)},
       'params': {'quick': {'MaxC': 2, 'MaxK': 2}, 'thorough': {'MaxC': 3, 'MaxK': 2}}, 'covers': ['position']} for fn, ints in F2I] +
     [{'name': 'C08_Lin_' + fn, 'opts': {'mode': 'value'}, 'types': {'quick': f2i_pairs(fn, ints, True), 'thorough': f2i_pairs(fn, ints, False)},
       'covers': ['binade']} for fn, ints in F2I] +
     [{'name': 'C08_Edges_' + fn, 'types': {'quick': f2i_pairs(fn, ints, True), 'thorough': f2i_pairs(fn, ints, False)}, 'covers': ['edges']} for fn, ints in F2I],
     bounds={'quick': 'every non-NaN float32/float64 input (symbolic bit pattern, IEEE semantics bit-blasted) for clipping at and beyond +-1 (incl. +-Inf), zero, the tiny range below 2^-(depth+1) and the sign side; every input with 2^-(depth+1) <= |f| < 1 (sign x binade case split, significand symbolic, exact integer encoding of the IEEE operations) for one-step accuracy and order inside the binade; binade junctions concretely; 8 of 22 instantiations',
             'thorough': 'all 22 instantiations'},
     level_note='Order preservation on (-1,1) is assembled from: order inside every binade (solver), the comparison at every binade junction (concrete), and the tiny range mapping to the zero code (solver); the gluing by transitivity is the only pen-and-paper step. NaN inputs are excluded by the property.',
     technique='SSA-to-SMT symbolic execution of the real code: IEEE floating point bit-blasted for single-sample facts, exact linear-integer encoding (concrete exponent, symbolic significand) for relational and accuracy facts; z3; native replay',
     outside=['NaN inputs (unspecified by the property)'])

I2F = [('SignedAsFloat', 'Signed', INTS_S), ('UnsignedAsFloat', 'Unsigned', INTS_U)]
I2F_Q = {'Signed': [('int8', 'float32'), ('int16', 'float64'), ('int16', 'float32'), ('int32', 'float64'), ('int64', 'float64')],
         'Unsigned': [('uint8', 'float64'), ('uint16', 'float32'), ('uint32', 'float64'), ('uint64', 'float32')]}
RT_ALL = {'Signed': [(a, 'float64') for a in ('int8', 'int16', 'int32')] + [(a, 'float32') for a in ('int8', 'int16')],
          'Unsigned': [(a, 'float64') for a in ('uint8', 'uint16', 'uint32')] + [(a, 'float32') for a in ('uint8', 'uint16')]}
RT_Q = {'Signed': [('int8', 'float64'), ('int16', 'float64'), ('int16', 'float32')], 'Unsigned': [('uint8', 'float64'), ('uint16', 'float64'), ('uint8', 'float32')]}

prop('C09', opts={'mode': 'value'},
     harnesses=[{'name': 'C09_' + fn, 'types': {'quick': I2F_Q[fam], 'thorough': [(a, b) for a in ints for b in FLOATS]}, 'covers': ['class']} for fn, fam, ints in I2F] +
     [{'name': 'C09_Levels_' + fn, 'types': {'quick': I2F_Q[fam], 'thorough': [(a, b) for a in ints for b in FLOATS]}, 'covers': ['levels']} for fn, fam, ints in I2F] +
     [{'name': 'C09_RT_' + fam, 'types': {'quick': RT_Q[fam], 'thorough': RT_ALL[fam]}} for fn, fam, ints in I2F],
     bounds={'quick': 'every source sample (case split over sign x bit length, value symbolic; exact integer encoding of int->float conversion, subtraction and division by the constant full scale with IEEE rounding): range, order inside the class, accuracy |result - amplitude/full scale| <= 2^-(depth-1) + 2^(2-p), strict order for depth <= 32 through float64; reference levels and class junctions concretely; round trips through the matching float->fixed conversion for 8/16-bit sources (float64: exact, float32: within one step); 8 of 22 instantiations',
             'thorough': 'all 22 instantiations; round trips for 8/16/32-bit sources through float64 and 8/16-bit through float32'},
     level_note='Order preservation / injectivity over the whole source range is assembled from the per-class solver results and the concrete comparison at each class junction (transitivity is the pen-and-paper step). The float-rounding allowance of the accuracy clause is fixed at 4 ulp of 1.0 (2^(2-p)).',
     technique='SSA-to-SMT symbolic execution of the real code with an exact linear-integer encoding of the IEEE operations (concrete exponent, symbolic significand); z3; native replay',
     outside=['round trips for 64-bit sources and for 32-bit sources through float32 (not promised by the property)'])

RATES = [8000, 11025, 16000, 22050, 32000, 44100, 48000, 88200, 96000, 176400, 192000, 352800, 384000,
         2822400, 5644800, 1, 7, 60, 1000, 1000000, 44100.5, 0.5, 999983, 48000.25, 99999, 31999, 705600, 768000, 3, 12000, 24000, 64000, 500000, 123457, 2, 1.5, 250000.75]
RATES_Q = [0, 5, 6, 14, 16, 19, 20, 22, 24]
prop('C17', opts={'mode': 'value'},
     harnesses=[{'name': h, 'types': [()], 'params': {'quick': {'Rates': len(RATES)}, 'thorough': {'Rates': len(RATES)}},
                 'splits': {'quick': [{'rate': i} for i in RATES_Q], 'thorough': [{'rate': i} for i in range(len(RATES))]},
                 'covers': [c]} for h, c in (('C17_Duration', 'class'), ('C17_Events', 'class'), ('C17_Junctions', 'junctions'))],
     bounds={'quick': 'rates %s Hz (concrete configurations); every event count 0..rate*86400 and every duration 0..24 h (case split over bit length, value symbolic; exact integer encoding of the IEEE multiplication and of math.Round): accuracy, one-step monotonicity (f(n) <= f(n+1) for every n, which gives non-decreasing by induction), Events(Duration(n)) == n for rates <= 1 MHz; bit-length junctions concretely' % [RATES[i] for i in RATES_Q],
             'thorough': 'all %d configured rates: %s' % (len(RATES), RATES)},
     level_note='The rate is concrete on every path: a symbolic rate makes 1e9/f*n a product of two symbolic doubles, which neither the integer encoding (non-linear) nor bit-blasted floating point (time-out) decides; rates outside the list are outside the claim. The float-rounding allowance is 2^-51 relative (two roundings).',
     technique='SSA-to-SMT symbolic execution of the real code with an exact linear-integer encoding of the IEEE operations; z3; native replay',
     outside=['rates not in the configured list (a symbolic rate is out of reach)', 'spans beyond 24 h'])

for _p, _st in (('C03', ['growcap']), ('C12', ['growcap']), ('C10', ['growcap']), ('C08', ['f2i', 'intfloat']), ('C09', ['f2i', 'intfloat']),
                ('C17', ['f2i', 'intfloat']), ('C01', ['f2i']), ('C05', ['f2i'])):
    PROPS[_p]['selftest'] = _st

for _p in ('C06', 'C07', 'C08', 'C09'):
    # layout 2 of conv2 only needs the recycled buffer (pool hit); the miss case is a fresh buffer = layout 0
    PROPS[_p].setdefault('opts', {})
    PROPS[_p]['opts'] = dict(PROPS[_p]['opts'], pool_mode='hit')
    for _h in PROPS[_p]['harnesses']:
        if 'opts' in _h:
            _h['opts'] = dict(_h['opts'], pool_mode='hit')

for _p in ('C06', 'C07'):
    for _h in PROPS[_p]['harnesses']:
        _h['params'] = {'quick': {'BigLayout': 1, 'BigFrames': 603}, 'thorough': {'BigLayout': 1, 'BigFrames': 4099}}
PROPS['C07']['harnesses'] += [
    {'name': 'C07_History_SignedThenUnsigned', 'types': {'quick': [('int8', 'uint8', 'int16')], 'thorough': [('int8', 'uint8', 'int16'), ('int8', 'uint8', 'int64'), ('int16', 'uint16', 'int32')]},
     'params': {'quick': {'HistFrames': 1100}, 'thorough': {'HistFrames': 4100}}, 'covers': ['history'], 'opts': {'pool_mode': 'hit'}},
    {'name': 'C07_History_UnsignedThenSigned', 'types': {'quick': [('uint8', 'int8', 'uint16')], 'thorough': [('uint8', 'int8', 'uint16'), ('uint8', 'int8', 'uint32'), ('uint16', 'int16', 'uint64')]},
     'params': {'quick': {'HistFrames': 1100}, 'thorough': {'HistFrames': 4100}}, 'covers': ['history'], 'opts': {'pool_mode': 'hit'}}]
