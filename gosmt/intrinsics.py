"""Interception of the harness intrinsics (package verifharness/vf)."""
import z3

from .engine import (RANGES, Closure, PathEnd, Unsupported, b_and, b_not, b_term, bv, fp_term, is_sym, simp_bool,
                     F32, F64, SliceV, Ptr)

P = 'verifharness/vf.'


def _ret(st, ins, v):
    if ins.get('reg'):
        st.frames[-1].regs[ins['reg']] = v


def vector_value(eng, st, name, tid):
    """concrete execution of a replay vector inside the engine (translator validation / debugging)"""
    vec = eng.opts.get('vector')
    if vec is None:
        return None
    i = st.ghost.get('vec_pos', 0)
    if i >= len(vec) or vec[i]['name'] != name:
        raise PathEnd('vector-out-of-step')
    st.ghost['vec_pos'] = i + 1
    t = eng.ut(tid)
    b = int(vec[i]['bits'])
    from .engine import wrap, from_bits64, from_bits32
    if t['k'] == 'int':
        v = wrap(b, t['bits'], t['signed'])
    elif t['k'] == 'float':
        v = from_bits64(b) if t['bits'] == 64 else from_bits32(b)
    else:
        v = bool(b)
    st.nondet.append((name, tid, v))
    return v


def new_symbol(eng, st, name, tid):
    t = eng.ut(tid)
    cv = vector_value(eng, st, name, tid)
    if cv is not None:
        return cv
    eng.nsym += 1
    uname = '%s!%d' % (name, eng.nsym)
    if eng.value_mode:
        v = eng.vm.new_symbol(eng, st, uname, t, tid, name)
        if v is not NotImplemented:
            return v
    if t['k'] == 'int':
        v = z3.BitVec(uname, t['bits'])
    elif t['k'] == 'float':
        v = z3.FP(uname, F64 if t['bits'] == 64 else F32)
    elif t['k'] == 'bool':
        v = z3.Bool(uname)
    else:
        raise Unsupported('vf.Any of ' + t['k'])
    st.nondet.append((name, tid, v))
    return v


def i_any(eng, st, fr, fn, args, ins):
    name = args[0]
    tid = fn['results'][0]
    _ret(st, ins, new_symbol(eng, st, name, tid))


def i_intrange(eng, st, fr, fn, args, ins):
    name, lo, hi = args
    tid = fn['results'][0]
    v = new_symbol(eng, st, name, tid)
    if eng.value_mode and eng.vm.is_term(v):
        if is_sym(lo) or is_sym(hi):
            raise Unsupported('vf.IntRange with symbolic bounds in value mode')
        if lo > hi:
            raise PathEnd('assume-false')
        st.pc.append(z3.And(v.t >= lo, v.t <= hi))
        v.lo, v.hi = max(v.lo, lo), min(v.hi, hi)
        _ret(st, ins, v)
        return
    if not is_sym(v):
        if is_sym(lo) or is_sym(hi) or not (lo <= v <= hi):
            raise PathEnd('assume-false')
        _ret(st, ins, v)
        return
    if not is_sym(lo) and not is_sym(hi) and z3.is_bv(v):
        if lo > hi:
            raise PathEnd('assume-false')
        RANGES[v.get_id()] = (lo, hi)
        eng.keep.append(v)
        # a fresh symbol: the range is satisfiable whenever pc is, no query needed
        st.pc.append(z3.And(v >= bv(lo, 64), v <= bv(hi, 64)))
        st.model = None
        _ret(st, ins, v)
        return
    c = z3.And(v >= bv(lo, 64), v <= bv(hi, 64))
    assume(eng, st, c)
    _ret(st, ins, v)


def assume(eng, st, c):
    c = simp_bool(c)
    if c is True:
        return
    if c is False:
        raise PathEnd('assume-false')
    if eng.model_says(st, c) is not True:
        ok, m = eng.feasible_m(st, c)
        if not ok:
            raise PathEnd('assume-false')
        st.model = m
    st.pc.append(c)


def i_pick(eng, st, fr, fn, args, ins):
    """vf.Pick(name, lo, hi): case split over lo..hi without solver calls (fresh symbol, so every value is feasible)"""
    name, lo, hi = args
    if is_sym(lo) or is_sym(hi):
        raise Unsupported('vf.Pick with symbolic bounds')
    if lo > hi:
        raise PathEnd('assume-false')
    tid = fn['results'][0]
    if eng.opts.get('vector') is not None:
        v = vector_value(eng, st, name, tid)
        if not (lo <= v <= hi):
            raise PathEnd('assume-false')
        if fn['name'].endswith('PickOnce'):
            memo = dict(st.ghost.get('pick_once') or {})
            memo[name] = v
            st.ghost['pick_once'] = memo
        _ret(st, ins, v)
        return
    conts = []
    fix = eng.opts.get('fix') or {}
    if name in fix:
        # this job covers one slice of the case split (the other values run in sibling jobs)
        if not (lo <= fix[name] <= hi):
            raise PathEnd('assume-false')
        lo = hi = fix[name]
    for c in range(lo, hi + 1):
        s = st if c == hi else st.clone()
        s.nondet.append((name, tid, c))
        s.frames[-1].regs[ins['reg']] = c
        if fn['name'].endswith('PickOnce'):
            memo = dict(s.ghost.get('pick_once') or {})
            memo[name] = c
            s.ghost['pick_once'] = memo
        s.trace.append('%s=%d' % (name, c))
        conts.append(s)
    eng.fork_from(st, conts)


def i_pick_once(eng, st, fr, fn, args, ins):
    name = args[0]
    memo = st.ghost.get('pick_once') or {}
    if name in memo:
        _ret(st, ins, memo[name])
        return
    before = len(st.nondet)
    # fork like Pick, then remember the value on every continuation
    i_pick(eng, st, fr, fn, args, ins)


def _remember_pick(eng, st, name):
    pass


def i_assume(eng, st, fr, fn, args, ins):
    assume(eng, st, args[0])


def i_assert(eng, st, fr, fn, args, ins):
    eng.check_assert(st, args[0], args[1])


def i_cover(eng, st, fr, fn, args, ins):
    st.covers.add(args[0])


def i_unreachable(eng, st, fr, fn, args, ins):
    eng.check_assert(st, 'unreachable:' + args[0], False)


def i_concretize(eng, st, fr, fn, args, ins):
    t = eng.ut(fn['results'][0])
    conts = []
    for v, s in eng.concretize(st, args[0], t['bits'], t['signed'], what='vf.Concretize'):
        s.frames[-1].regs[ins['reg']] = v
        s.trace.append('concretize=%d' % v)
        conts.append(s)
    eng.fork_from(st, conts)


def i_panics(eng, st, fr, fn, args, ins):
    clo = args[0]
    if not isinstance(clo, Closure):
        raise Unsupported('vf.Panics argument')

    def on_return(eng, st, fr2, v):
        st.frames[-1].regs[ins['reg']] = False
    nf = eng.push_call(st, clo, [], ret_to=ins['reg'], catch=True, on_return=on_return)


def i_samebits(eng, st, fr, fn, args, ins):
    a, b = args
    t = eng.ut(fn['params'][0]['t'])
    if eng.value_mode:
        r = eng.vm.samebits(eng, a, b, t)
        if r is not NotImplemented:
            _ret(st, ins, r)
            return
    if t['k'] == 'float':
        if not is_sym(a) and not is_sym(b):
            import math
            r = (a != a and b != b) or (a == b and math.copysign(1, a) == math.copysign(1, b))
        else:
            r = simp_bool(fp_term(a, t['bits']) == fp_term(b, t['bits']))   # SMT-LIB '=': NaN = NaN, +0 != -0
    else:
        if not is_sym(a) and not is_sym(b):
            r = a == b
        else:
            r = simp_bool(bv(a, t['bits']) == bv(b, t['bits']))
    _ret(st, ins, r)


def i_sameval(eng, st, fr, fn, args, ins):
    a, b = args
    t = eng.ut(fn['params'][0]['t'])
    if t['k'] == 'float':
        if not is_sym(a) and not is_sym(b):
            r = (a != a and b != b) or a == b
        else:
            x, y = fp_term(a, t['bits']), fp_term(b, t['bits'])
            r = simp_bool(z3.Or(z3.fpEQ(x, y), z3.And(z3.fpIsNaN(x), z3.fpIsNaN(y))))
    else:
        if not is_sym(a) and not is_sym(b):
            r = a == b
        else:
            r = simp_bool(bv(a, t['bits']) == bv(b, t['bits']))
    _ret(st, ins, r)


def i_choice(eng, st, fr, fn, args, ins):
    name, n = args
    tid = fn['results'][0]
    v = new_symbol(eng, st, name, tid)
    if not is_sym(v):
        if not (0 <= v < n):
            raise PathEnd('assume-false')
        _ret(st, ins, v)
        return
    assume(eng, st, z3.And(v >= 0, v < bv(n, 64)))
    conts = []
    for c, s in eng.concretize(st, v, 64, True, what='vf.Choice'):
        s.frames[-1].regs[ins['reg']] = c
        s.trace.append('%s=%d' % (name, c))
        conts.append(s)
    eng.fork_from(st, conts)


def i_all(eng, st, fr, fn, args, ins):
    s = args[0]
    r = True
    if s.obj is not None:
        for i in range(s.len):
            r = b_and(r, eng.load(st, eng.slice_elem_ptr(s, i)))
    _ret(st, ins, simp_bool(r) if is_sym(r) else r)


def i_implies(eng, st, fr, fn, args, ins):
    a, b = args
    r = b_not(a) if b is False else (True if b is True else None)
    if r is None:
        if a is True:
            r = b
        elif a is False:
            r = True
        else:
            r = simp_bool(z3.Implies(b_term(a), b_term(b)))
    _ret(st, ins, r)


def i_ite(eng, st, fr, fn, args, ins):
    c, a, b = args
    _ret(st, ins, eng.merge(c, a, b, fn['results'][0]))


def i_allocs(eng, st, fr, fn, args, ins):
    clo = args[0]
    if not isinstance(clo, Closure):
        raise Unsupported('vf.Allocs argument')
    st.ghost['allocs'] = []

    def on_return(eng, st, fr2, v):
        g = st.ghost.get('allocs') or []
        st.ghost['allocs'] = None
        st.ghost['last_allocs'] = list(g)
        if g:
            eng.cur_result.setdefault('alloc_sites', [])
            for a in g:
                if a not in eng.cur_result['alloc_sites'] and len(eng.cur_result['alloc_sites']) < 20:
                    eng.cur_result['alloc_sites'].append(a)
        st.frames[-1].regs[ins['reg']] = len(g)
    eng.push_call(st, clo, [], ret_to=ins['reg'], on_return=on_return)


def i_noalloc_begin(eng, st, fr, fn, args, ins):
    st.ghost['allocs'] = []


def i_noalloc_end(eng, st, fr, fn, args, ins):
    g = st.ghost.get('allocs') or []
    st.ghost['allocs'] = None
    st.ghost['last_allocs'] = list(g)
    _ret(st, ins, len(g))


def i_param(eng, st, fr, fn, args, ins):
    name, d = args
    _ret(st, ins, eng.opts.get('params', {}).get(name, d))


TABLE = {
    P + 'Param': i_param,
    P + 'Pick': i_pick,
    P + 'PickOnce': i_pick_once,
    P + 'Any': i_any,
    P + 'IntRange': i_intrange,
    P + 'Assume': i_assume,
    P + 'Assert': i_assert,
    P + 'Cover': i_cover,
    P + 'Unreachable': i_unreachable,
    P + 'Concretize': i_concretize,
    P + 'Panics': i_panics,
    P + 'SameBits': i_samebits,
    P + 'SameVal': i_sameval,
    P + 'Choice': i_choice,
    P + 'All': i_all,
    P + 'Implies': i_implies,
    P + 'Ite': i_ite,
    P + 'Allocs': i_allocs,
    P + 'AllocsBegin': i_noalloc_begin,
    P + 'AllocsEnd': i_noalloc_end,
}
