"""Validation of the trusted parts of the translator against the native toolchain and hardware floats.

  growcap   : go1.23 growslice model vs native append on a (size, oldcap, oldlen, add) grid
  f2i       : gc/amd64 float->int model (python and z3 encodings) vs native conversions on boundary values
  intfloat  : the exact-integer IEEE encoding (valuemode.round_alts & co.) on python ints vs hardware
              double / numpy float32 arithmetic on boundary-dense and seeded random operands
Run: python3-vt -m gosmt.selftest   (exit 0 = all agree)
"""
import json
import math
import os
import random
import subprocess
import sys

import numpy as np
import z3

from . import engine as E
from . import growcap, valuemode as V


def native_probe(scratch):
    exe = os.path.join(scratch, 'nativeprobe.bin')
    from .run import sh
    rc, out, err = sh(['go', 'build', '-trimpath', '-o', exe, './cmd/nativeprobe'], cwd=scratch, timeout=600)
    if rc != 0:
        return None, err
    rc, out, err = sh([exe], timeout=120)
    return json.loads(out), None


def check_growcap(probe):
    bad = []
    for r in probe['grow']:
        m = growcap.growslice_cap(r['OldCap'], r['OldLen'] + r['Add'], r['Size'])
        if m != r['NewCap']:
            bad.append((r, m))
    return len(probe['grow']), bad


def check_f2i(probe):
    eng = E.Engine({'types': {}, 'funcs': {}}, {})
    n, bad = 0, []
    types = {'int8': (8, True), 'int16': (16, True), 'int32': (32, True), 'int64': (64, True), 'int': (64, True),
             'uint8': (8, False), 'uint16': (16, False), 'uint32': (32, False), 'uint64': (64, False), 'uint': (64, False), 'uintptr': (64, False)}
    x = z3.FP('x', E.F64)
    sym = {t: eng.float2int(x, {'bits': 64}, {'bits': w, 'signed': s}) for t, (w, s) in types.items()}
    for row in probe['conv']:
        bits = int(row['bits'])
        f = E.from_bits64(bits)
        fx = z3.fpNaN(E.F64) if f != f else z3.fpBVToFP(z3.BitVecVal(bits, 64), E.F64)
        for t, (w, s) in types.items():
            want = int(row['r'][t])
            got = E.wrap(E.amd64_f2i(f, w, s), w, False)
            v = z3.simplify(z3.substitute(sym[t], (x, fx))) if E.is_sym(sym[t]) else sym[t]
            got2 = v.as_long() if z3.is_bv_value(v) else None
            n += 1
            if got != want or got2 != want:
                bad.append((f, t, want, got, got2))
    return n, bad


def check_intfloat(seed=1, n=4000):
    rnd = random.Random(seed)
    vm = V.VM(None)
    bad = []
    cnt = 0

    def pick(bits):
        p = V.PREC[bits]
        k = rnd.random()
        if k < 0.15:
            m = rnd.choice([1 << (p - 1), (1 << p) - 1, (1 << (p - 1)) + 1, (1 << p) - 2, 3 << (p - 2)])
        else:
            m = rnd.randrange(1 << (p - 1), 1 << p)
        e = rnd.randrange(-80, 70) - (p - 1)
        x = math.ldexp(float(m), e)
        return -x if rnd.random() < 0.5 else x

    def consts():
        return rnd.choice([127.0, 128.0, 32767.0, 32768.0, 8388607.0, 2147483647.0, 2147483648.0, 9223372036854775807.0,
                           9223372036854775808.0, 1e9 / 44100, 44100 / 1e9, 1e9 / 48000, 3.0, 0.1, 1e9 / 7, 65535.0, 255.0, 1.0 / 3])

    def one(alts):
        live = [(c, v) for c, v in alts if c is not False]
        assert len(live) == 1 and live[0][0] is True, alts
        return live[0][1]

    def same(a, b):
        return (a != a and b != b) or (a == b and math.copysign(1, a) == math.copysign(1, b))

    for bits in (64, 32):
        tof = (lambda v: float(np.float32(v))) if bits == 32 else float
        for _ in range(n):
            a = tof(pick(bits))
            c = tof(consts())
            A, C = V.to_if(a, bits), V.to_if(c, bits)
            if bits == 32:
                hw = {'*': float(np.float32(a) * np.float32(c)), '/': float(np.float32(a) / np.float32(c)),
                      '+': float(np.float32(a) + np.float32(c)), '-': float(np.float32(a) - np.float32(c))}
            else:
                hw = {'*': a * c, '/': a / c, '+': a + c, '-': a - c}
            for op in '*/+-':
                try:
                    if op == '*':
                        r = one(vm.f_mul(A, C, bits))
                    elif op == '/':
                        r = one(vm.f_div(None, A, C, bits))
                    else:
                        r = one(vm.f_addsub(None, A, C, op == '-', bits))
                except E.Unsupported:
                    continue
                cnt += 1
                got = V.if_to_float(r)
                if not same(got, hw[op]):
                    bad.append((bits, op, a, c, got, hw[op]))
            # conversions
            for (w, s) in ((8, True), (16, True), (32, True), (64, True), (8, False), (16, False), (32, False), (64, False)):
                cnt += 1
                want = E.wrap(E.amd64_f2i(a, w, s), w, s)
                got = one(vm.f_to_int_alts(A, w, s))
                if got != want:
                    bad.append((bits, 'f2i', a, (w, s), got, want))
            for how, fn in (('Round', E_round), ('Ceil', math.ceil), ('Floor', math.floor), ('Trunc', math.trunc)):
                if abs(a) < 2 ** 52:
                    cnt += 1
                    got = V.if_to_float(one(vm.f_round_alts(A, how)))
                    want = float(fn(a))
                    if got != want:
                        bad.append((bits, how, a, got, want))
        for _ in range(n):
            i = rnd.choice([rnd.randrange(-2 ** 63, 2 ** 63), rnd.randrange(-2 ** 31, 2 ** 31), rnd.randrange(-300, 300),
                            rnd.choice([1, -1]) * ((1 << rnd.randrange(1, 64)) + rnd.randrange(-2, 3))])
            i = max(-2 ** 63, min(2 ** 63 - 1, i))
            cnt += 1
            got = V.if_to_float(one(vm.f_from_int_alts(i, bits)))
            want = E.int_to_f32(i) if bits == 32 else float(i)
            if got != want:
                bad.append((bits, 'i2f', i, got, want))
    # narrowing
    for _ in range(n):
        a = pick(64)
        cnt += 1
        A = V.to_if(a, 64)
        got = V.if_to_float(one(vm.round_alts(A.sign, A.m, A.e, False, 32)))
        want = float(np.float32(a))
        if not same(got, want):
            bad.append(('narrow', a, got, want))
    return cnt, bad


def E_round(x):
    a = abs(x)
    t = math.floor(a)
    r = t + 1 if a - t >= 0.5 else t
    return math.copysign(float(r), x)


def run_all(scratch=None, verbose=True):
    from . import run
    own = scratch is None
    if own:
        scratch = run.make_scratch()
    res = {}
    try:
        probe, err = native_probe(scratch)
        if probe is None:
            res['native_probe'] = {'error': err[-400:]}
        else:
            n, bad = check_growcap(probe)
            res['growcap'] = {'cases': n, 'mismatches': len(bad), 'first': str(bad[:2])}
            n, bad = check_f2i(probe)
            res['f2i'] = {'cases': n, 'mismatches': len(bad), 'first': str(bad[:2])}
        n, bad = check_intfloat()
        res['intfloat'] = {'cases': n, 'mismatches': len(bad), 'first': str(bad[:2])}
    finally:
        if own:
            import shutil
            shutil.rmtree(scratch, ignore_errors=True)
    if verbose:
        print(json.dumps(res, indent=1))
    return res


if __name__ == '__main__':
    r = run_all()
    ok = all(v.get('mismatches') == 0 for v in r.values())
    sys.exit(0 if ok else 1)
