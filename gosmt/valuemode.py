"""Value mode: exact integer (LIA) encoding of the arithmetic kernels.

Bit-blasted IEEE double arithmetic times out on every relational query (order,
round trip, accuracy) beyond an 8-bit destination (DESIGN.md section 9).  Here a
symbolic float is an `IF`: class, sign and exponent are concrete on the path and
only the significand is a symbolic mathematical integer; Go integers are `IT`
terms (mathematical integers with an interval, wrapped explicitly).  Every
floating-point operation of the kernels has a constant second operand, so
multiplication, division, addition, int<->float conversion, narrowing and
math.Round become linear constraints with div/mod by constants, plus a case split
(fork) on the normalisation shift.  The same code runs on python ints (concrete
self-test against hardware floats, selftest/intfloat_test.py).
"""
import math
import struct

import numpy as np
import z3

from .engine import PathEnd, Unsupported, is_sym, wrap, f32, fbits64, fbits32

EMIN = {64: -1074, 32: -149}
PREC = {64: 53, 32: 24}
EMAX = {64: 1024, 32: 128}   # values >= 2^EMAX overflow


class IT:
    """symbolic mathematical integer with a conservative interval"""
    __slots__ = ('t', 'lo', 'hi')

    def __init__(self, t, lo, hi):
        self.t = t
        self.lo = lo
        self.hi = hi

    def __repr__(self):
        return 'IT(%s,[%d,%d])' % (self.t, self.lo, self.hi)


class IF:
    """kind: 'fin' (value (-1)^sign * m * 2^e, m >= 1), 'zero', 'inf', 'nan'"""
    __slots__ = ('kind', 'sign', 'e', 'm', 'bits')

    def __init__(self, kind, sign, e=0, m=0, bits=64):
        self.kind = kind
        self.sign = sign
        self.e = e
        self.m = m
        self.bits = bits

    def __repr__(self):
        return 'IF(%s,%d,e=%d,m=%r,%d)' % (self.kind, self.sign, self.e, self.m, self.bits)


def isterm(x):
    return isinstance(x, (IT, IF))


def itv(x):
    return (x, x) if isinstance(x, int) else (x.lo, x.hi)


def tm(x):
    return z3.IntVal(x) if isinstance(x, int) else x.t


def mk(t, lo, hi):
    if lo == hi:
        return lo
    return IT(t, lo, hi)


def i_add(a, b):
    if isinstance(a, int) and isinstance(b, int):
        return a + b
    (al, ah), (bl, bh) = itv(a), itv(b)
    if isinstance(b, int) and b == 0:
        return a
    if isinstance(a, int) and a == 0:
        return b
    return mk(tm(a) + tm(b), al + bl, ah + bh)


def i_neg(a):
    if isinstance(a, int):
        return -a
    return mk(-a.t, -a.hi, -a.lo)


def i_sub(a, b):
    return i_add(a, i_neg(b))


def i_mulc(a, c):
    """a * python-int constant"""
    if isinstance(a, int):
        return a * c
    if c == 0:
        return 0
    if c == 1:
        return a
    lo, hi = a.lo * c, a.hi * c
    return mk(a.t * z3.IntVal(c), min(lo, hi), max(lo, hi))


def i_mul(a, b):
    if isinstance(b, int):
        return i_mulc(a, b)
    if isinstance(a, int):
        return i_mulc(b, a)
    raise Unsupported('product of two symbolic integers (non-linear)')


def i_fdiv(a, c):
    """floor division by a positive python-int constant"""
    if isinstance(a, int):
        return a // c
    if c == 1:
        return a
    return mk(a.t / z3.IntVal(c), a.lo // c, a.hi // c)


def i_mod(a, c):
    """a mod positive constant (result in [0,c))"""
    if isinstance(a, int):
        return a % c
    if c == 1:
        return 0
    if a.lo >= 0 and a.hi < c:
        return a
    if a.lo // c == a.hi // c:
        return mk(a.t - z3.IntVal((a.lo // c) * c), a.lo % c, a.hi % c)
    return mk(a.t % z3.IntVal(c), 0, c - 1)


def i_tdiv(a, c):
    """Go (truncating) division by a non-zero python-int constant"""
    if isinstance(a, int):
        q = abs(a) // abs(c)
        return q if (a < 0) == (c < 0) else -q
    if c < 0:
        return i_neg(i_tdiv(a, -c))
    if a.lo >= 0:
        return i_fdiv(a, c)
    if a.hi <= 0:
        return i_neg(i_fdiv(i_neg(a), c))
    t = z3.If(a.t >= 0, a.t / z3.IntVal(c), -((-a.t) / z3.IntVal(c)))
    return mk(t, -((-a.lo) // c), a.hi // c)


def i_cmp(tok, a, b):
    if isinstance(a, int) and isinstance(b, int):
        return {'==': a == b, '!=': a != b, '<': a < b, '<=': a <= b, '>': a > b, '>=': a >= b}[tok]
    (al, ah), (bl, bh) = itv(a), itv(b)
    if tok == '<':
        if ah < bl:
            return True
        if al >= bh:
            return False
        return tm(a) < tm(b)
    if tok == '<=':
        if ah <= bl:
            return True
        if al > bh:
            return False
        return tm(a) <= tm(b)
    if tok == '>':
        return i_cmp('<', b, a)
    if tok == '>=':
        return i_cmp('<=', b, a)
    if tok == '==':
        if ah < bl or bh < al:
            return False
        return tm(a) == tm(b)
    if tok == '!=':
        if ah < bl or bh < al:
            return True
        return tm(a) != tm(b)
    raise Unsupported('int comparison ' + tok)


def i_wrap(a, bits, signed):
    """reduce a mathematical integer to the Go type's range"""
    lo_t, hi_t = (-(1 << (bits - 1)), (1 << (bits - 1)) - 1) if signed else (0, (1 << bits) - 1)
    if isinstance(a, int):
        return wrap(a, bits, signed)
    if a.lo >= lo_t and a.hi <= hi_t:
        return a
    M = 1 << bits
    # same multiple of 2^bits over the whole interval: a plain shift
    if (a.lo - lo_t) // M == (a.hi - lo_t) // M:
        k = ((a.lo - lo_t) // M) * M
        return mk(a.t - z3.IntVal(k), a.lo - k, a.hi - k)
    if signed:
        t = ((a.t + z3.IntVal(1 << (bits - 1))) % z3.IntVal(M)) - z3.IntVal(1 << (bits - 1))
    else:
        t = a.t % z3.IntVal(M)
    return IT(t, lo_t, hi_t)


# ----------------------------------------------------------------------------
# floats


def decompose(x):
    """python float -> (kind, sign, m, e) with x = (-1)^sign * m * 2^e exactly, m odd or zero-free"""
    if x != x:
        return ('nan', 0, 0, 0)
    sign = 1 if math.copysign(1.0, x) < 0 else 0
    if x in (float('inf'), float('-inf')):
        return ('inf', sign, 0, 0)
    if x == 0:
        return ('zero', sign, 0, 0)
    n, d = abs(x).as_integer_ratio()
    # d is a power of two
    e = -(d.bit_length() - 1)
    while n % 2 == 0:
        n //= 2
        e += 1
    return ('fin', sign, n, e)


def to_if(x, bits):
    if isinstance(x, IF):
        return x
    k, s, m, e = decompose(float(x))
    return IF(k, s, e, m, bits)


def if_to_float(v):
    """concrete IF -> python float (exact)"""
    if v.kind == 'nan':
        return float('nan')
    if v.kind == 'inf':
        return float('-inf') if v.sign else float('inf')
    if v.kind == 'zero':
        return -0.0 if v.sign else 0.0
    x = math.ldexp(float(v.m), v.e) if v.m < (1 << 53) else float(v.m * (2 ** v.e) if v.e >= 0 else v.m / (2 ** -v.e))
    return -x if v.sign else x


def concrete_if(v):
    return isinstance(v, IF) and isinstance(v.m, int)


class VM:
    def __init__(self, eng):
        self.eng = eng
        self.nfresh = 0

    # -- plumbing -------------------------------------------------------------
    def is_term(self, v):
        return isinstance(v, (IT, IF))

    def fresh(self, base):
        self.nfresh += 1
        return z3.Int('%s~%d' % (base, self.nfresh))

    def split(self, st, alts, ins, what=''):
        """alts: list of (cond, value) with cond True | z3 Bool; sets the result register on every
        feasible continuation (st is reused for one of them)."""
        eng = self.eng
        live = []
        for cond, val in alts:
            if cond is False:
                continue
            live.append((cond, val))
        if not live:
            raise PathEnd('pruned')
        if len(live) == 1 and live[0][0] is True:
            st.frames[-1].regs[ins['reg']] = live[0][1]
            return
        feas = []
        for cond, val in live:
            if cond is True:
                feas.append((cond, val, None))
                continue
            h = eng.model_says(st, cond)
            if h is True:
                feas.append((cond, val, st.model))
                continue
            ok, m = eng.feasible_m(st, cond)
            if ok:
                feas.append((cond, val, m))
        if not feas:
            raise PathEnd('pruned')
        conts = []
        for i, (cond, val, m) in enumerate(feas):
            s = st if i == len(feas) - 1 else st.clone()
            if cond is not True:
                s.pc.append(cond)
                s.model = m
            s.frames[-1].regs[ins['reg']] = val
            if len(feas) > 1:
                s.trace.append('%s#%d' % (what or 'case', i))
            conts.append(s)
        eng.fork_from(st, conts)

    # -- rounding ---------------------------------------------------------------
    def round_alts(self, sign, N, E, sticky, bits):
        """RNE of (-1)^sign * (N + sticky-fraction) * 2^E to the format `bits`.
        N: int | IT (>= 0); sticky: False | True | z3 Bool (a non-zero fraction below N's unit).
        Returns [(cond, IF)] where the conds partition the values of N."""
        p, emin, emax = PREC[bits], EMIN[bits], EMAX[bits]
        lo, hi = itv(N)
        if lo < 0:
            raise Unsupported('internal: negative significand')
        alts = []
        if hi == 0:
            if sticky is not False:
                raise Unsupported('rounding of a pure sticky fraction')
            return [(True, IF('zero', sign, bits=bits))]
        if lo == 0:
            if sticky is not False:
                raise Unsupported('rounding of a possibly zero significand with sticky bits')
            alts.append((i_cmp('==', N, 0), IF('zero', sign, bits=bits)))
            lo = 1
        for L in range(lo.bit_length(), hi.bit_length() + 1):
            clo, chi = max(lo, 1 << (L - 1)), min(hi, (1 << L) - 1)
            if clo > chi:
                continue
            if clo == lo and chi == hi:
                cond = True if not alts else i_cmp('>=', N, 1)
            else:
                cs = []
                if clo > lo or alts:
                    cs.append(i_cmp('>=', N, clo))
                if chi < hi:
                    cs.append(i_cmp('<=', N, chi))
                cs = [c for c in cs if c is not True]
                cond = True if not cs else (cs[0] if len(cs) == 1 else z3.And(*cs))
            Nc = N if isinstance(N, int) else IT(N.t, clo, chi)
            k = max(L - p, emin - E)
            if k <= 0:
                if sticky is not False:
                    raise Unsupported('internal: sticky bits with no rounding shift (caller must pre-scale)')
                val = IF('fin', sign, E, Nc, bits)
                top = E + L
            else:
                q = i_fdiv(Nc, 1 << k)
                r = i_mod(Nc, 1 << k)
                half = 1 << (k - 1)
                if isinstance(Nc, int) and isinstance(sticky, bool):
                    up = r > half or (r == half and (sticky or q % 2 == 1))
                    m2 = q + (1 if up else 0)
                else:
                    gt = i_cmp('>', r, half)
                    eq = i_cmp('==', r, half)
                    odd = i_cmp('==', i_mod(q, 2), 1)
                    tie = _or(sticky, odd)
                    up = _or(gt, _and(eq, tie))
                    ql, qh = itv(q)
                    if up is True:
                        m2 = i_add(q, 1)
                    elif up is False:
                        m2 = q
                    else:
                        m2 = mk(tm(q) + z3.If(up, z3.IntVal(1), z3.IntVal(0)), ql, qh + 1)
                ml, mh = itv(m2)
                if mh == 0:
                    val = IF('zero', sign, bits=bits)
                elif ml == 0:
                    raise Unsupported('rounding may underflow to zero (subnormal range)')
                else:
                    val = IF('fin', sign, E + k, m2, bits)
                top = E + k + mh.bit_length()
            if top > emax:
                # overflow to infinity: only when it is certain (the borderline case is not modelled)
                ml = itv(val.m)[0] if val.kind == 'fin' else 0
                if val.kind == 'fin' and val.e + ml.bit_length() > emax:
                    val = IF('inf', sign, bits=bits)
                else:
                    raise Unsupported('rounding at the overflow threshold')
            alts.append((cond, val))
        return alts

    # -- float operations ------------------------------------------------------------
    def f_mul(self, a, b, bits):
        if not concrete_if(b):
            if concrete_if(a):
                a, b = b, a
            else:
                raise Unsupported('product of two symbolic floats')
        sign = a.sign ^ b.sign
        if a.kind == 'nan' or b.kind == 'nan':
            return [(True, IF('nan', 0, bits=bits))]
        if a.kind == 'inf' or b.kind == 'inf':
            if a.kind == 'zero' or b.kind == 'zero':
                return [(True, IF('nan', 0, bits=bits))]
            return [(True, IF('inf', sign, bits=bits))]
        if a.kind == 'zero' or b.kind == 'zero':
            return [(True, IF('zero', sign, bits=bits))]
        return self.round_alts(sign, i_mulc(a.m, b.m), a.e + b.e, False, bits)

    def f_div(self, st, a, b, bits):
        if not concrete_if(b):
            raise Unsupported('division by a symbolic float')
        sign = a.sign ^ b.sign
        if a.kind == 'nan' or b.kind == 'nan':
            return [(True, IF('nan', 0, bits=bits))]
        if a.kind == 'inf':
            return [(True, IF('nan', 0, bits=bits) if b.kind == 'inf' else IF('inf', sign, bits=bits))]
        if b.kind == 'inf':
            return [(True, IF('zero', sign, bits=bits))]
        if b.kind == 'zero':
            return [(True, IF('nan', 0, bits=bits) if a.kind == 'zero' else IF('inf', sign, bits=bits))]
        if a.kind == 'zero':
            return [(True, IF('zero', sign, bits=bits))]
        p = PREC[bits]
        if b.m == 1:
            return self.round_alts(sign, a.m, a.e - b.e, False, bits)
        lo, hi = itv(a.m)
        t = max(0, p + 3 + b.m.bit_length() - lo.bit_length())
        num = i_mulc(a.m, 1 << t)
        if isinstance(num, int):
            Q, R = divmod(num, b.m)
            sticky = R != 0
        else:
            q = self.fresh('Q')
            r = self.fresh('R')
            nl, nh = itv(num)
            st.pc.append(z3.And(num.t == q * z3.IntVal(b.m) + r, r >= 0, r < z3.IntVal(b.m),
                                q >= z3.IntVal(nl // b.m), q <= z3.IntVal(nh // b.m)))
            st.model = None
            Q = mk(q, nl // b.m, nh // b.m)
            sticky = (r != 0)
        return self.round_alts(sign, Q, a.e - b.e - t, sticky, bits)

    def f_addsub(self, st, a, b, sub, bits):
        if a.kind == 'nan' or b.kind == 'nan':
            return [(True, IF('nan', 0, bits=bits))]
        bs = b.sign ^ (1 if sub else 0)
        if a.kind == 'inf' or b.kind == 'inf':
            if a.kind == 'inf' and b.kind == 'inf' and a.sign != bs:
                return [(True, IF('nan', 0, bits=bits))]
            return [(True, IF('inf', a.sign if a.kind == 'inf' else bs, bits=bits))]
        if b.kind == 'zero':
            if a.kind == 'zero':
                return [(True, IF('zero', 1 if (a.sign and bs) else 0, bits=bits))]
            return self.round_alts(a.sign, a.m, a.e, False, bits)
        if a.kind == 'zero':
            return self.round_alts(bs, b.m, b.e, False, bits)
        E = min(a.e, b.e)
        if max(a.e, b.e) - E > 2200:
            raise Unsupported('addition of floats with very different exponents')
        A = i_mulc(a.m, (1 << (a.e - E)) * (-1 if a.sign else 1))
        B = i_mulc(b.m, (1 << (b.e - E)) * (-1 if bs else 1))
        N = i_add(A, B)
        lo, hi = itv(N)
        alts = []
        if hi > 0:
            pos = N if lo > 0 or isinstance(N, int) else IT(N.t, max(lo, 1), hi)
            for c, v in self.round_alts(0, pos, E, False, bits):
                alts.append((_and(i_cmp('>', N, 0), c), v))
        if lo < 0:
            neg = i_neg(N if hi < 0 or isinstance(N, int) else IT(N.t, lo, min(hi, -1)))
            for c, v in self.round_alts(1, neg, E, False, bits):
                alts.append((_and(i_cmp('<', N, 0), c), v))
        if lo <= 0 <= hi:
            alts.append((i_cmp('==', N, 0), IF('zero', 0, bits=bits)))
        return alts

    def f_cmp(self, tok, a, b):
        if a.kind == 'nan' or b.kind == 'nan':
            return tok == '!='

        def key(v):
            if v.kind == 'zero':
                return 0, 0
            if v.kind == 'inf':
                return None, (-1 if v.sign else 1)
            return (i_neg(v.m) if v.sign else v.m), v.e
        (ka, ea), (kb, eb) = key(a), key(b)
        if ka is None or kb is None:
            va = ea * 2 if ka is None else (0 if a.kind == 'zero' else (-1 if a.sign else 1))
            vb = eb * 2 if kb is None else (0 if b.kind == 'zero' else (-1 if b.sign else 1))
            if ka is None and kb is None:
                va, vb = ea, eb
            return i_cmp(tok, va, vb)
        if a.kind == 'zero':
            ea = eb
        if b.kind == 'zero':
            eb = ea
        E = min(ea, eb)
        if max(ea, eb) - E > 2200:
            raise Unsupported('comparison of floats with very different exponents')
        return i_cmp(tok, i_mulc(ka, 1 << (ea - E)), i_mulc(kb, 1 << (eb - E)))

    def f_to_int_alts(self, a, tw, tsg):
        """gc/amd64 float->int (DESIGN.md section 3). returns [(cond, int value of type)]"""
        def indef(n):
            return 1 << (n - 1)

        def low(v, n):   # raw n-bit pattern -> value of the target type
            return i_wrap(v, tw, tsg) if tw <= n else v
        n = 32 if (tw <= 16 or (tw == 32 and tsg)) else 64
        if a.kind in ('nan', 'inf'):
            if tw == 64 and not tsg:
                return [(True, wrap(1 << 63, 64, False))]
            return [(True, low(indef(n), n))]
        if a.kind == 'zero':
            return [(True, 0)]
        mag = i_mulc(a.m, 1 << a.e) if a.e >= 0 else i_fdiv(a.m, 1 << -a.e)
        T = i_neg(mag) if a.sign else mag
        lo, hi = itv(T)
        if tw == 64 and not tsg:
            # x < 2^63 ? cvt64(x) : cvt64(x - 2^63) | 2^63
            alts = []
            W = 1 << 63
            if lo < -W:
                alts.append((i_cmp('<', T, -W), W))
            if hi >= -W and lo < W:
                c = _and(i_cmp('>=', T, -W) if lo < -W else True, i_cmp('<', T, W) if hi >= W else True)
                alts.append((c, i_wrap(_clip(T, max(lo, -W), min(hi, W - 1)), 64, False)))
            if hi >= W and lo < 2 * W:
                c = _and(i_cmp('>=', T, W) if lo < W else True, i_cmp('<', T, 2 * W) if hi >= 2 * W else True)
                alts.append((c, _clip(T, max(lo, W), min(hi, 2 * W - 1))))
            if hi >= 2 * W:
                alts.append((i_cmp('>=', T, 2 * W), W))
            return alts
        W = 1 << (n - 1)
        alts = []
        if lo < -W:
            alts.append((i_cmp('<', T, -W), low(indef(n), n)))
        if hi >= W:
            alts.append((i_cmp('>=', T, W), low(indef(n), n)))
        if hi >= -W and lo < W:
            c = _and(i_cmp('>=', T, -W) if lo < -W else True, i_cmp('<', T, W) if hi >= W else True)
            alts.append((c, low(_clip(T, max(lo, -W), min(hi, W - 1)), n)))
        return alts

    def f_from_int_alts(self, x, bits):
        lo, hi = itv(x)
        alts = []
        if hi > 0:
            pos = x if lo > 0 or isinstance(x, int) else IT(x.t, max(lo, 1), hi)
            for c, v in self.round_alts(0, pos, 0, False, bits):
                alts.append((_and(i_cmp('>', x, 0) if lo <= 0 else True, c), v))
        if lo < 0:
            neg = i_neg(x if hi < 0 or isinstance(x, int) else IT(x.t, lo, min(hi, -1)))
            for c, v in self.round_alts(1, neg, 0, False, bits):
                alts.append((_and(i_cmp('<', x, 0) if hi >= 0 else True, c), v))
        if lo <= 0 <= hi:
            alts.append((i_cmp('==', x, 0), IF('zero', 0, bits=bits)))
        return alts

    def f_round_alts(self, a, how):
        """math.Round / Ceil / Floor / Trunc"""
        if a.kind != 'fin' or a.e >= 0:
            return [(True, a)]
        d = 1 << -a.e
        n = i_fdiv(a.m, d)
        r = i_mod(a.m, d)
        if how == 'Round':
            up = i_cmp('>=', r, d // 2) if d > 1 else False
        elif how == 'Trunc':
            up = False
        elif how == 'Ceil':
            up = i_cmp('>', r, 0) if not a.sign else False
        else:  # Floor
            up = i_cmp('>', r, 0) if a.sign else False
        if up is True:
            res = i_add(n, 1)
        elif up is False:
            res = n
        else:
            nl, nh = itv(n)
            res = mk(tm(n) + z3.If(up, z3.IntVal(1), z3.IntVal(0)), nl, nh + 1)
        lo, hi = itv(res)
        alts = []
        if lo == 0:
            alts.append((i_cmp('==', res, 0), IF('zero', a.sign, bits=a.bits)))
        if hi > 0:
            pos = res if isinstance(res, int) or lo > 0 else IT(res.t, 1, hi)
            if hi >= (1 << PREC[a.bits]):
                raise Unsupported('math.%s result beyond the exact integer range' % how)
            alts.append((i_cmp('>', res, 0) if lo == 0 else True, IF('fin', a.sign, 0, pos, a.bits)))
        return alts

    # -- engine hooks --------------------------------------------------------------------
    def binop(self, eng, st, tok, x, y, xt, yt, ins):
        if not (isterm(x) or isterm(y)):
            return NotImplemented
        k = xt['k']
        if k == 'int':
            if tok in ('==', '!=', '<', '<=', '>', '>='):
                return i_cmp(tok, x, y)
            w, sg = xt['bits'], xt['signed']
            if tok == '+':
                return i_wrap(i_add(x, y), w, sg)
            if tok == '-':
                return i_wrap(i_sub(x, y), w, sg)
            if tok == '*':
                return i_wrap(i_mul(x, y), w, sg)
            if tok in ('/', '%'):
                if not isinstance(y, int):
                    raise Unsupported('division by a symbolic integer')
                if y == 0:
                    eng.do_panic(st, 'runtime error: integer divide by zero')
                q = i_tdiv(x, y)
                if tok == '/':
                    return i_wrap(q, w, sg)
                return i_wrap(i_sub(x, i_mulc(q, y)), w, sg)
            if tok in ('<<', '>>'):
                if not isinstance(y, int):
                    raise Unsupported('shift by a symbolic count')
                if y >= w:
                    if tok == '<<' or not sg:
                        return 0
                    raise Unsupported('arithmetic shift of a symbolic value by >= width')
                if tok == '<<':
                    return i_wrap(i_mulc(x, 1 << y), w, sg)
                return i_fdiv(x, 1 << y)
            if tok == '&' and isinstance(y, int) and y >= 0 and (y & (y + 1)) == 0 and itv(x)[0] >= 0:
                return i_mod(x, y + 1)
            raise Unsupported('integer operator %s on symbolic mathematical integers' % tok)
        if k == 'float':
            bits = xt['bits']
            a, b = to_if(x, bits), to_if(y, bits)
            if tok in ('==', '!=', '<', '<=', '>', '>='):
                return self.f_cmp(tok, a, b)
            if tok == '*':
                alts = self.f_mul(a, b, bits)
            elif tok == '/':
                alts = self.f_div(st, a, b, bits)
            elif tok in ('+', '-'):
                alts = self.f_addsub(st, a, b, tok == '-', bits)
            else:
                raise Unsupported('float operator ' + tok)
            self.split(st, alts, ins, 'f' + tok)
            return st.frames[-1].regs.get(ins['reg'])
        raise Unsupported('value-mode operator on ' + k)

    def unop(self, eng, tok, x, xt):
        if not isterm(x):
            return NotImplemented
        if tok == '-':
            if xt['k'] == 'int':
                return i_wrap(i_neg(x), xt['bits'], xt['signed'])
            return IF(x.kind, x.sign ^ 1, x.e, x.m, x.bits)
        raise Unsupported('unary %s in value mode' % tok)

    def convert(self, eng, x, ft, tt):
        if not isterm(x):
            return NotImplemented
        raise _NeedSplit()

    def convert_split(self, eng, st, x, ft, tt, ins):
        fk, tk = ft['k'], tt['k']
        if fk == 'int' and tk == 'int':
            st.frames[-1].regs[ins['reg']] = i_wrap(x, tt['bits'], tt['signed'])
            return
        if fk == 'int' and tk == 'float':
            self.split(st, self.f_from_int_alts(x, tt['bits']), ins, 'i2f')
            return
        if fk == 'float' and tk == 'float':
            if tt['bits'] >= ft['bits'] or x.kind != 'fin':
                st.frames[-1].regs[ins['reg']] = IF(x.kind, x.sign, x.e, x.m, tt['bits'])
                return
            self.split(st, self.round_alts(x.sign, x.m, x.e, False, 32), ins, 'narrow')
            return
        if fk == 'float' and tk == 'int':
            self.split(st, self.f_to_int_alts(x, tt['bits'], tt['signed']), ins, 'f2i')
            return
        raise Unsupported('value-mode conversion %s -> %s' % (fk, tk))

    def merge(self, cond, a, b, tid):
        if not (isterm(a) or isterm(b)):
            return NotImplemented
        if isinstance(a, IF) or isinstance(b, IF):
            raise Unsupported('merge of symbolic floats in value mode')
        (al, ah), (bl, bh) = itv(a), itv(b)
        return mk(z3.If(cond, tm(a), tm(b)), min(al, bl), max(ah, bh))

    def new_symbol(self, eng, st, uname, t, tid, name):
        if t['k'] == 'int':
            lo, hi = (-(1 << (t['bits'] - 1)), (1 << (t['bits'] - 1)) - 1) if t['signed'] else (0, (1 << t['bits']) - 1)
            v = z3.Int(uname)
            st.pc.append(z3.And(v >= z3.IntVal(lo), v <= z3.IntVal(hi)))
            st.model = None
            x = IT(v, lo, hi)
            st.nondet.append((name, tid, x))
            return x
        if t['k'] == 'float':
            raise Unsupported('vf.Any of a float type in value mode (use vf.FloatIn)')
        return NotImplemented

    def model_bits(self, model, term, t):
        if isinstance(term, IT):
            v = model.eval(term.t, model_completion=True).as_long()
            return v & ((1 << t['bits']) - 1)
        if isinstance(term, IF):
            m = term.m if isinstance(term.m, int) else model.eval(term.m.t, model_completion=True).as_long()
            x = if_to_float(IF(term.kind, term.sign, term.e, m, term.bits))
            return fbits64(x) if t['bits'] == 64 else fbits32(x)
        return None

    def concretize(self, eng, st, v, bits, signed, limit, what):
        if isinstance(v, IT):
            if v.hi - v.lo > (limit or 64):
                raise Unsupported('concretize of a wide symbolic integer in value mode')
            outs = []
            for c in range(v.lo, v.hi + 1):
                ok, m = eng.feasible_m(st, v.t == c)
                if ok:
                    outs.append((c, m))
            res = []
            for i, (c, m) in enumerate(outs):
                s = st if i == len(outs) - 1 else st.clone()
                s.pc.append(v.t == c)
                s.model = m
                res.append((c, s))
            return res
        raise Unsupported('concretize of a float')

    def round(self, eng, st, fname, x):
        return NotImplemented

    def samebits(self, eng, a, b, t):
        if not (isterm(a) or isterm(b)):
            return NotImplemented
        if t['k'] == 'int':
            return i_cmp('==', a, b)
        fa, fb = to_if(a, t['bits']), to_if(b, t['bits'])
        if fa.kind == 'nan' or fb.kind == 'nan':
            return fa.kind == fb.kind
        if fa.kind == 'zero' and fb.kind == 'zero':
            return fa.sign == fb.sign
        return self.f_cmp('==', fa, fb)

    def fabs(self, eng, x):
        if not isterm(x):
            return NotImplemented
        return IF(x.kind, 0, x.e, x.m, x.bits)

    def isnan(self, eng, x):
        if not isterm(x):
            return NotImplemented
        return x.kind == 'nan'

    def isinf(self, eng, x, sign):
        if not isterm(x):
            return NotImplemented
        return x.kind == 'inf' and (sign == 0 or (sign > 0) == (x.sign == 0))


class _NeedSplit(Exception):
    pass


def _and(a, b):
    if a is True:
        return b
    if b is True:
        return a
    if a is False or b is False:
        return False
    return z3.And(a, b)


def _or(a, b):
    if a is False:
        return b
    if b is False:
        return a
    if a is True or b is True:
        return True
    return z3.Or(a, b)


def _clip(T, lo, hi):
    if isinstance(T, int):
        return T
    return IT(T.t, max(T.lo, lo), min(T.hi, hi))


# ----------------------------------------------------------------------------
# intrinsics only meaningful with exact arithmetic

P = 'verifharness/vf.'


def _ret(st, ins, v):
    if ins.get('reg'):
        st.frames[-1].regs[ins['reg']] = v


def i_float_in(eng, st, fr, fn, args, ins):
    """vf.FloatIn[T](name, loExp, hiExp): any finite value with 2^lo <= |x| < 2^(hi+1), either sign.
    Forks over sign x binade; the significand stays symbolic."""
    from . import intrinsics
    name, lo, hi = args
    tid = fn['results'][0]
    t = eng.ut(tid)
    bits = t['bits']
    p = PREC[bits]
    cv = intrinsics.vector_value(eng, st, name, tid)
    if cv is not None:
        _ret(st, ins, cv)
        return
    fix = eng.opts.get('fix') or {}
    conts = []
    cases = [(s, E) for s in (0, 1) for E in range(lo, hi + 1)]
    if name + '.sign' in fix:
        cases = [c for c in cases if c[0] == fix[name + '.sign']]
    for i, (s, E) in enumerate(cases):
        st2 = st if i == len(cases) - 1 else st.clone()
        eng.nsym += 1
        m = z3.Int('%s.m!%d' % (name, eng.nsym))
        mlo, mhi = 1 << (p - 1), (1 << p) - 1
        st2.pc.append(z3.And(m >= z3.IntVal(mlo), m <= z3.IntVal(mhi)))
        st2.model = None
        v = IF('fin', s, E - (p - 1), IT(m, mlo, mhi), bits)
        st2.nondet.append((name, tid, v))
        st2.frames[-1].regs[ins['reg']] = v
        st2.trace.append('%s:sign=%d,binade=%d' % (name, s, E))
        st2.ghost['binade'] = (s, E)
        conts.append(st2)
    eng.fork_from(st, conts)


def i_float_like(eng, st, fr, fn, args, ins):
    """vf.FloatLike(f, name): another arbitrary value of f's sign and binade"""
    from . import intrinsics
    f, name = args
    tid = fn['results'][0]
    cv = intrinsics.vector_value(eng, st, name, tid)
    if cv is not None:
        _ret(st, ins, cv)
        return
    if not isinstance(f, IF) or f.kind != 'fin':
        raise Unsupported('vf.FloatLike of a non-symbolic float')
    eng.nsym += 1
    m = z3.Int('%s.m!%d' % (name, eng.nsym))
    lo, hi = itv(f.m)
    p = PREC[f.bits]
    lo, hi = 1 << (p - 1), (1 << p) - 1
    st.pc.append(z3.And(m >= z3.IntVal(lo), m <= z3.IntVal(hi)))
    st.model = None
    v = IF('fin', f.sign, f.e, IT(m, lo, hi), f.bits)
    st.nondet.append((name, tid, v))
    _ret(st, ins, v)


def i_int_class(eng, st, fr, fn, args, ins):
    """vf.IntClass[T](name): any value of T; forks over sign x bit length so that later roundings need no split"""
    from . import intrinsics
    name = args[0]
    tid = fn['results'][0]
    t = eng.ut(tid)
    cv = intrinsics.vector_value(eng, st, name, tid)
    if cv is not None:
        _ret(st, ins, cv)
        return
    w, sg = t['bits'], t['signed']
    cases = [(0, 0)]
    for L in range(1, w + (0 if sg else 1)):
        cases.append((1 << (L - 1), (1 << L) - 1))
    if sg:
        for L in range(1, w):
            cases.append((-((1 << L) - 1), -(1 << (L - 1))))
        cases.append((-(1 << (w - 1)), -(1 << (w - 1))))
    fix = eng.opts.get('fix') or {}
    if name + '.class' in fix:
        want = fix[name + '.class']
        cases = [c for i, c in enumerate(cases) if i % want[1] == want[0]]
    conts = []
    for i, (lo, hi) in enumerate(cases):
        s2 = st if i == len(cases) - 1 else st.clone()
        if lo == hi:
            v = lo
        else:
            eng.nsym += 1
            x = z3.Int('%s!%d' % (name, eng.nsym))
            s2.pc.append(z3.And(x >= z3.IntVal(lo), x <= z3.IntVal(hi)))
            s2.model = None
            v = IT(x, lo, hi)
        s2.nondet.append((name, tid, v))
        s2.frames[-1].regs[ins['reg']] = v
        s2.trace.append('%s in [%d,%d]' % (name, lo, hi))
        conts.append(s2)
    eng.fork_from(st, conts)


def i_int_like(eng, st, fr, fn, args, ins):
    """vf.IntLike(x, name): another arbitrary value of x's sign and bit length"""
    from . import intrinsics
    x, name = args
    tid = fn['results'][0]
    cv = intrinsics.vector_value(eng, st, name, tid)
    if cv is not None:
        _ret(st, ins, cv)
        return
    lo, hi = itv(x)
    if lo == hi:
        st.nondet.append((name, tid, lo))
        _ret(st, ins, lo)
        return
    eng.nsym += 1
    y = z3.Int('%s!%d' % (name, eng.nsym))
    st.pc.append(z3.And(y >= z3.IntVal(lo), y <= z3.IntVal(hi)))
    st.model = None
    v = IT(y, lo, hi)
    st.nondet.append((name, tid, v))
    _ret(st, ins, v)


def _signed_scaled(f, bits):
    """IF -> (signed significand, exponent) ; zero -> (0, 0)"""
    f = to_if(f, bits)
    if f.kind == 'zero':
        return 0, 0
    if f.kind != 'fin':
        raise Unsupported('exact comparison with a non-finite float')
    return (i_neg(f.m) if f.sign else f.m), f.e


def _abs_le(x, bound):
    """|x| <= bound  for IT/int x and IT/int bound"""
    return _and(i_cmp('<=', x, bound), i_cmp('>=', x, i_neg(bound)))


def i_scaled_diff_le(eng, st, fr, fn, args, ins):
    """vf.ScaledDiffLE(f, scale, r, tol): |f*scale - r| <= tol, exactly (scale, tol concrete)"""
    f, scale, r, tol = args
    if not isinstance(scale, int) or not isinstance(tol, int):
        raise Unsupported('ScaledDiffLE needs concrete scale and tolerance')
    bits = eng.ut(fn['params'][0]['t'])['bits']
    m, e = _signed_scaled(f, bits)
    if e >= 0:
        d = i_sub(i_mulc(m, scale << e), r)
        res = _abs_le(d, tol)
    else:
        d = i_sub(i_mulc(m, scale), i_mul(r, 1 << -e))
        res = _abs_le(d, tol << -e)
    _ret(st, ins, res)


def i_ratio_diff_le(eng, st, fr, fn, args, ins):
    """vf.RatioDiffLE(f, num, den, e1, e2): |f - num/den| <= 2^e1 + 2^e2, exactly (den > 0, e1, e2 concrete)"""
    f, num, den, e1, e2 = args
    if not isinstance(den, int) or not isinstance(e1, int) or not isinstance(e2, int) or den <= 0:
        raise Unsupported('RatioDiffLE needs concrete denominator and tolerances')
    bits = eng.ut(fn['params'][0]['t'])['bits']
    m, e = _signed_scaled(f, bits)
    # multiply everything by den * 2^k with k = -min(e, e1, e2, 0)
    k = -min(e, e1, e2, 0)
    lhs = i_sub(i_mulc(m, den << (e + k)), i_mul(num, 1 << k))
    bound = den * ((1 << (e1 + k)) + (1 << (e2 + k)))
    _ret(st, ins, _abs_le(lhs, bound))


def _rat(x):
    n, d = float(x).as_integer_ratio()
    return n, d


def i_lin_diff_le(eng, st, fr, fn, args, ins):
    """vf.LinDiffLE(a, ca, b, cb, t0, k): |a*ca - b*cb| <= t0 + |b*cb| * 2^k, exactly.
    a, b integers (symbolic), ca, cb, t0 concrete floats (exact rationals), k concrete."""
    a, ca, b, cb, t0, k = args
    for c in (ca, cb, t0):
        if not isinstance(c, float):
            raise Unsupported('LinDiffLE needs concrete coefficients')
    if not isinstance(k, int) or k > 0:
        raise Unsupported('LinDiffLE needs a concrete non-positive exponent')
    (an, ad), (bn, bd), (tn, td) = _rat(ca), _rat(cb), _rat(t0)
    D = ad * bd * td * (1 << -k)
    A = i_mulc(a, an * (D // ad))
    B = i_mulc(b, bn * (D // bd))
    T = tn * (D // td)
    absB = B
    bl, bh = itv(B)
    if bl < 0:
        if bh <= 0:
            absB = i_neg(B)
        else:
            absB = mk(z3.If(tm(B) >= 0, tm(B), -tm(B)), 0, max(-bl, bh))
    rel = i_fdiv(absB, 1 << -k) if False else None
    # |A - B| * 2^-k ... keep exact: multiply both sides by 2^-k instead of dividing
    S = 1 << -k
    lhs = i_mulc(i_sub(A, B), S)
    bound = i_add(T * S, absB)
    _ret(st, ins, _abs_le(lhs, bound))


def i_exponent(eng, st, fr, fn, args, ins):
    """vf.Binade(f): floor(log2|f|) of a finite non-zero float (concrete on every value-mode path)"""
    f = args[0]
    if isinstance(f, IF):
        if f.kind != 'fin':
            raise Unsupported('Binade of non-finite')
        lo, hi = itv(f.m)
        if lo.bit_length() != hi.bit_length():
            raise Unsupported('Binade not determined')
        _ret(st, ins, f.e + lo.bit_length() - 1)
        return
    if isinstance(f, float):
        _ret(st, ins, math.frexp(abs(f))[1] - 1)
        return
    raise Unsupported('Binade of a bit-vector float')


TABLE = {
    P + 'FloatIn': i_float_in,
    P + 'FloatLike': i_float_like,
    P + 'IntClass': i_int_class,
    P + 'IntLike': i_int_like,
    P + 'ScaledDiffLE': i_scaled_diff_le,
    P + 'RatioDiffLE': i_ratio_diff_le,
    P + 'LinDiffLE': i_lin_diff_le,
    P + 'Binade': i_exponent,
}


def install(eng):
    vm = VM(eng)
    eng.vm = vm
    eng.value_mode = True
    eng.intr = dict(eng.intr)
    eng.intr.update(TABLE)
    # conversions and rounding stubs may need to fork: wrap the engine entry points
    orig_convert_op = eng.op_Convert

    def op_convert(st, fr, ins):
        x = eng.val(st, fr, ins['x'])
        if isterm(x):
            vm.convert_split(eng, st, x, eng.ut(ins['xt']), eng.ut(ins['t']), ins)
            return
        orig_convert_op(st, fr, ins)
    eng.op_Convert = op_convert

    from . import stubs
    eng.stubs = dict(eng.stubs)
    for nm in ('Round', 'Ceil', 'Floor', 'Trunc'):
        orig = stubs.TABLE['math.' + nm]

        def h(e, st, fr, fn, args, ins, nm=nm, orig=orig):
            x = args[0]
            if isinstance(x, IF):
                vm.split(st, vm.f_round_alts(x, nm), ins, 'math.' + nm)
                return
            return orig(e, st, fr, fn, args, ins)
        eng.stubs['math.' + nm] = h
