"""go1.23 runtime.growslice capacity for pointer-free element types:
nextslicecap followed by roundupsize over the malloc size classes.
Validated against native append by selftest (see selftest/)."""

SIZE_CLASSES = [0, 8, 16, 24, 32, 48, 64, 80, 96, 112, 128, 144, 160, 176, 192, 208, 224, 240, 256, 288, 320, 352,
                384, 416, 448, 480, 512, 576, 640, 704, 768, 896, 1024, 1152, 1280, 1408, 1536, 1792, 2048, 2304,
                2688, 3072, 3200, 3456, 4096, 4864, 5376, 6144, 6528, 6784, 6912, 8192, 9472, 9728, 10240, 10880,
                12288, 13568, 14336, 16384, 18432, 19072, 20480, 21760, 24576, 27264, 28672, 32768]
PAGE = 8192


def roundupsize(size):
    if size <= 32768 - 8:  # maxSmallSize - mallocHeaderSize
        for c in SIZE_CLASSES:
            if c >= size:
                return c
    return (size + PAGE - 1) // PAGE * PAGE


def nextslicecap(newlen, oldcap):
    newcap = oldcap
    doublecap = newcap + newcap
    if newlen > doublecap:
        return newlen
    threshold = 256
    if oldcap < threshold:
        return doublecap
    while True:
        newcap += (newcap + 3 * threshold) >> 2
        if newcap >= newlen:
            break
    return newcap


def growslice_cap(oldcap, newlen, elemsize):
    newcap = nextslicecap(newlen, oldcap)
    if elemsize == 0:
        return newcap
    mem = roundupsize(newcap * elemsize)
    return mem // elemsize
