"""Check driver: python3-vt -m gosmt.run <Cnn> quick|thorough   |   --replay <vector.json>

Builds the harness module against $SIGNAL_REPO (default /repo), dumps SSA, runs the
symbolic executor (one worker per harness instantiation), replays every solver model
against the natively compiled real code and writes /verif/evidence/<id>.json.
Exit 0: property held on everything explored (KNOWN-FINDING lines possible); exit 1 with a
VIOLATION line only for a natively reproduced counterexample that is not a listed finding.
"""
import hashlib
import json
import multiprocessing as mp
import os
import re
import shutil
import subprocess
import sys
import tempfile
import time

VERIF = os.path.dirname(os.path.dirname(os.path.abspath(__file__)))
EVDIR = os.environ.get('VERIF_EVIDENCE_DIR') or os.path.join(VERIF, 'evidence')
REPO = os.environ.get('SIGNAL_REPO', '/repo')
GOENV = dict(os.environ, GOFLAGS='-mod=mod', GOPROXY='off', GOSUMDB='off', GOTOOLCHAIN='local')

_IR = None
_IRPATH = None


def sh(cmd, cwd=None, timeout=600, env=None):
    p = subprocess.run(cmd, cwd=cwd, env=env or GOENV, stdout=subprocess.PIPE, stderr=subprocess.PIPE, timeout=timeout)
    return p.returncode, p.stdout.decode(errors='replace'), p.stderr.decode(errors='replace')


def ensure_frontend():
    exe = os.path.join(VERIF, '.build', 'ssa2json')
    src = os.path.join(VERIF, 'frontend', 'main.go')
    if not os.path.exists(exe) or os.path.getmtime(exe) < os.path.getmtime(src):
        os.makedirs(os.path.dirname(exe), exist_ok=True)
        rc, out, err = sh(['go', 'build', '-o', exe, '.'], cwd=os.path.join(VERIF, 'frontend'))
        if rc != 0:
            raise SystemExit('front end build failed:\n' + err)
    return exe


def make_scratch():
    d = tempfile.mkdtemp(prefix='verif-signal-')
    src = os.path.join(VERIF, 'harness')
    for name in os.listdir(src):
        p = os.path.join(src, name)
        if os.path.isdir(p):
            shutil.copytree(p, os.path.join(d, name))
        elif name != 'go.mod.tmpl':
            shutil.copy(p, d)
    tmpl = open(os.path.join(src, 'go.mod.tmpl')).read().replace('@SIGNAL_REPO@', REPO)
    open(os.path.join(d, 'go.mod'), 'w').write(tmpl)
    if os.path.exists(os.path.join(REPO, 'go.sum')):
        shutil.copy(os.path.join(REPO, 'go.sum'), os.path.join(d, 'go.sum'))
    return d


def tree_hash():
    h = hashlib.sha256()
    for name in sorted(os.listdir(REPO)):
        if name.endswith('.go') and not name.endswith('_test.go'):
            h.update(name.encode())
            h.update(open(os.path.join(REPO, name), 'rb').read())
    return h.hexdigest()[:16]


def entry_key(fid):
    # 'verifharness/props.C02_Slice[int8]' -> 'C02_Slice[int8]' ; type args separated by ','
    n = fid.split('props.', 1)[1]
    return n.replace(' ', ',').replace('verifharness/props.', '')


def worker(job):
    global _IR, _IRPATH
    from . import engine as E
    irpath, fid, opts = job
    if _IRPATH != irpath:
        _IR = E.load_ir(irpath)
        _IRPATH = irpath
    t0 = time.time()
    try:
        eng = E.Engine(_IR, opts)
        if opts.get('mode') == 'value':
            from . import valuemode
            valuemode.install(eng)
        if opts.get('threads'):
            from . import threads
            threads.install(eng)
        dl = t0 + opts['entry_timeout'] if opts.get('entry_timeout') else None
        res = eng.run_entry(fid, deadline=dl)
    except Exception as e:  # engine bug: inconclusive, never a verdict
        import traceback
        res = {'entry': fid, 'paths': 0, 'instrs': 0, 'asserts': {}, 'covers': {}, 'violations': [],
               'unsupported': ['engine error: %s' % e], 'unknown': [], 'unwinding_failures': 0, 'panics': 0,
               'samples': [], 'ended': {}, 'solver': {}, 'traceback': traceback.format_exc(), 'max_loop': 0, 'witnesses': []}
    res['wall_s'] = round(time.time() - t0, 3)
    res['params'] = opts.get('params', {})
    res['fix'] = opts.get('fix')
    res['mode'] = opts.get('mode', 'shape')
    res['known_hits'] = res.get('known_hits', [])
    return res


def functions_encoded(ir):
    out = []
    for fid, f in ir['funcs'].items():
        if f.get('pkg') == 'pipelined.dev/signal' and not f['external']:
            out.append({'name': f['name'], 'src_sha': f.get('src_sha', '')})
    out.sort(key=lambda x: x['name'])
    return out


def load_known(pid):
    p = os.path.join(VERIF, 'KNOWN_FINDINGS.json')
    if not os.path.exists(p):
        return []
    d = json.load(open(p))
    return [e for e in d.get('findings', []) if e.get('property') == pid and e.get('status') == 'known']


def match_known(known, entry, viol):
    vals = {}
    for v in viol['values']:
        vals.setdefault(v['name'], []).append(int(v['bits']))
    for k in known:
        if not re.search(k.get('entry', '.*'), entry):
            continue
        if not re.search(k.get('label', '.*'), viol['label']):
            continue
        ok = True
        for name, allowed in (k.get('witness') or {}).items():
            got = vals.get(name)
            if not got or any(g not in allowed for g in got[:1]):
                ok = False
        if ok:
            return k
    return None


def run_check(pid, tier, seed=0):
    from . import proptable
    t_start = time.time()
    spec = proptable.PROPS[pid]
    exe = ensure_frontend()
    scratch = make_scratch()
    lines = []
    exit_code = 0
    try:
        # validation of the environment models this property relies on (translator self-test)
        st_res = {}
        if spec.get('selftest'):
            from . import selftest
            try:
                if 'growcap' in spec['selftest'] or 'f2i' in spec['selftest']:
                    probe, perr = selftest.native_probe(scratch)
                    if probe is None:
                        st_res['native_probe'] = {'mismatches': 1, 'first': perr[-300:]}
                    else:
                        if 'growcap' in spec['selftest']:
                            n, bad = selftest.check_growcap(probe)
                            st_res['growcap'] = {'cases': n, 'mismatches': len(bad), 'first': str(bad[:2])}
                        if 'f2i' in spec['selftest']:
                            n, bad = selftest.check_f2i(probe)
                            st_res['f2i'] = {'cases': n, 'mismatches': len(bad), 'first': str(bad[:2])}
                if 'intfloat' in spec['selftest']:
                    n, bad = selftest.check_intfloat(seed=seed or 1, n=600 if tier == 'quick' else 4000)
                    st_res['intfloat'] = {'cases': n, 'mismatches': len(bad), 'first': str(bad[:2])}
            except Exception as e:
                st_res['error'] = {'mismatches': 1, 'first': str(e)[:300]}
            for k, v in st_res.items():
                if v.get('mismatches'):
                    lines.append('INCONCLUSIVE property=%s translator self-test %s disagrees with the native toolchain: %s' % (pid, k, v.get('first')))
        # entry list
        jobs_spec = proptable.jobs(pid, tier)
        names = sorted({j['entry'] for j in jobs_spec})
        rx = '^(' + '|'.join(re.escape(n.split('[')[0]) for n in names) + ')(\\[|$)'
        irpath = os.path.join(scratch, 'ir.json')
        t0 = time.time()
        rc, out, err = sh([exe, '-dir', scratch, '-entries', rx, '-o', irpath], timeout=600)
        if rc != 0:
            print('INCONCLUSIVE property=%s front end failed (does /repo compile?):\n%s' % (pid, err[-3000:]))
            write_evidence(pid, tier, seed, spec, None, [], [], [], time.time() - t_start, note='front end failed: ' + err[-500:])
            return 0
        fe_time = time.time() - t0
        ir = json.load(open(irpath))
        have = {entry_key(f): f for f in ir['entries']}
        jobs = []
        missing = []
        known = load_known(pid)
        for j in jobs_spec:
            fid = have.get(j['entry'])
            if fid is None:
                missing.append(j['entry'])
                continue
            opts = dict(j.get('opts', {}))
            opts.setdefault('timeout_ms', 150000 if tier == 'quick' else 300000)
            opts['seed'] = seed
            opts['known'] = [k for k in known if re.search(k.get('entry', '.*'), j['entry'])]
            opts.setdefault('export_queries', 2 if tier == 'quick' else 8)
            opts.setdefault('entry_timeout', spec.get('entry_timeout', {}).get(tier, 600 if tier == 'quick' else 3000))
            jobs.append((irpath, fid, opts))
        nproc = int(os.environ.get('VERIF_PROCS', '16'))
        results = []
        if jobs:
            with mp.Pool(min(nproc, len(jobs)), maxtasksperchild=8) as pool:
                for r in pool.imap_unordered(worker, jobs, chunksize=1):
                    results.append(r)
        results.sort(key=lambda r: r['entry'])
        # replay gate
        replays = []
        to_replay = []
        rdir = os.path.join(EVDIR, 'replays')
        nvec = 0
        for r in results:
            for v in r['violations']:
                os.makedirs(rdir, exist_ok=True)
                key = entry_key(r['entry'])
                fn = '%s-%s-%d.json' % (pid, re.sub(r'[^A-Za-z0-9_]+', '_', key), nvec)
                nvec += 1
                path = os.path.join(rdir, fn)
                vec = {'entry': key, 'label': v['label'], 'values': [{'name': x['name'], 'bits': x['bits']} for x in v['values']],
                       'params': r['params'], 'text': v.get('text'), 'pos': v.get('pos'), 'choices': v.get('choices')}
                json.dump(vec, open(path, 'w'), indent=1)
                to_replay.append((r, v, path))
        confirmed, unconfirmed, known_hits = [], [], []
        validated, mismatches, notcomparable = 0, [], 0
        rexe = os.path.join(scratch, 'replay.bin')
        race = spec.get('race_replay', False)
        cmd = ['go', 'build', '-trimpath'] + (['-race'] if race and to_replay else []) + ['-o', rexe, './cmd/replay']
        rc, out, err = sh(cmd, cwd=scratch, timeout=900)
        if rc == 0:
            # translator validation: witnesses of completed symbolic paths must run the same way natively
            wdir = os.path.join(scratch, 'wit')
            os.makedirs(wdir, exist_ok=True)
            wl = []
            for r in results:
                for w in r.get('witnesses', []):
                    pth = os.path.join(wdir, 'w%d.json' % len(wl))
                    json.dump({'entry': entry_key(r['entry']), 'label': '', 'values': w['values'], 'params': r['params']}, open(pth, 'w'))
                    wl.append((r, w, pth))
            for i in range(0, len(wl), 100):
                batch = wl[i:i + 100]
                try:
                    rc2, out2, err2 = sh([rexe] + [p for _, _, p in batch], timeout=300)
                    rows = [json.loads(l) for l in out2.strip().splitlines() if l.startswith('{')]
                except Exception:
                    rows = []
                for j, (r, w, pth) in enumerate(batch):
                    row = rows[j] if j < len(rows) else {'status': 'crash'}
                    if row.get('status') == 'ok' and sorted(set(row.get('covered') or [])) == sorted(set(w['covers'])):
                        validated += 1
                    elif row.get('status') in ('invalid', 'crash') or 'pool-miss' in w.get('choices', []) or spec.get('race_replay'):
                        notcomparable += 1
                    else:
                        mismatches.append({'harness': entry_key(r['entry']), 'native': row, 'symbolic_covers': w['covers'],
                                           'values': w['values'][:12]})
        # second opinion: a sample of the discharged queries is re-decided by z3 4.8.12 and cvc5 from SMT-LIB2 text
        xs = cross_solver(results, scratch, 12 if tier == 'quick' else 120)
        for d in xs['disagreements'][:5]:
            lines.append('INCONCLUSIVE property=%s solvers disagree on an exported query: %s' % (pid, json.dumps(d)[:300]))
        # concolic fall-back: paths the encoder could not finish are completed natively from the prefix input
        fb_confirmed = []
        if rc == 0:
            fl = []
            for r in results:
                for w in r.get('fallbacks', []):
                    os.makedirs(rdir, exist_ok=True)
                    key = entry_key(r['entry'])
                    pth = os.path.join(rdir, '%s-%s-fallback-%d.json' % (pid, re.sub(r'[^A-Za-z0-9_]+', '_', key), len(fl)))
                    json.dump({'entry': key, 'label': '', 'values': w['values'], 'params': r['params'], 'lenient': True,
                               'text': 'prefix of a path the executor could not encode (%s); completed natively with default values' % w['reason']},
                              open(pth, 'w'), indent=1)
                    fl.append((r, w, pth))
            for i in range(0, len(fl), 50):
                batch = fl[i:i + 50]
                try:
                    rc2, out2, err2 = sh([rexe] + [p for _, _, p in batch], timeout=300)
                    rows = [json.loads(l) for l in out2.strip().splitlines() if l.startswith('{')]
                except Exception:
                    rows = []
                for j, (r, w, pth) in enumerate(batch):
                    row = rows[j] if j < len(rows) else {'status': 'crash'}
                    # (assumptions are not retroactive: an assertion that failed before a later unmet assumption counts)
                    if row.get('status') in ('assert-failed', 'panic') or (row.get('status') == 'invalid' and row.get('failed')):
                        lab = (row.get('failed') or ['unexpected-panic'])[0]
                        v = {'label': lab, 'values': w['values'], 'text': 'concolic fall-back: ' + w['reason']}
                        fb_confirmed.append((r, v, pth, row))
        confirmed.extend(fb_confirmed)
        if to_replay:
            if rc != 0:
                print('INCONCLUSIVE property=%s replay build failed: %s' % (pid, err[-2000:]))
                for r, v, path in to_replay:
                    unconfirmed.append((r, v, path, 'replay build failed'))
            else:
                # replay in batches (one process per 50 vectors; one per vector under the race detector)
                outs = {}
                bs = 1 if race else 50
                renv = dict(GOENV, GORACE='halt_on_error=0 exitcode=0', VF_REPEAT='400' if spec.get('stress_replay') else '1') if race else None
                for i in range(0, len(to_replay), bs):
                    batch = to_replay[i:i + 50]
                    try:
                        rc, out, err = sh([rexe] + [p for _, _, p in batch], timeout=300, env=renv)
                        rows = [json.loads(l) for l in out.strip().splitlines() if l.startswith('{')]
                        if race and rows:
                            rows[0]['data_race'] = 'WARNING: DATA RACE' in err
                            if rows[0]['data_race']:
                                rows[0]['race_report'] = err[err.index('WARNING: DATA RACE'):][:600]
                    except Exception as e:
                        rows = []
                    for j, (r, v, path) in enumerate(batch):
                        outs[path] = rows[j] if j < len(rows) else {'status': 'crash'}
                for r, v, path in to_replay:
                    res = outs[path]
                    if v['label'] == 'unexpected-panic':
                        ok = res.get('status') == 'panic'
                    elif v['label'] == 'no-data-race':
                        ok = bool(res.get('data_race'))
                    else:
                        ok = v['label'] in (res.get('failed') or [])
                    if ok:
                        confirmed.append((r, v, path, res))
                    else:
                        unconfirmed.append((r, v, path, res))
        seen_known = set()
        viol_count = {}
        for r, v, path, res in confirmed:
            key = entry_key(r['entry'])
            k = match_known(known, key, v)
            if k is not None:
                kid = k.get('id', k.get('text', ''))
                if kid not in seen_known:
                    seen_known.add(kid)
                    lines.append('KNOWN-FINDING: property=%s %s' % (pid, k.get('text', '')))
                known_hits.append({'entry': key, 'label': v['label'], 'finding': kid, 'replay': path})
            else:
                exit_code = 1
                sig = (key.split('[')[0], v['label'])
                viol_count[sig] = viol_count.get(sig, 0) + 1
                if viol_count[sig] <= 2:
                    lines.append('VIOLATION property=%s replay=%s' % (pid, path))
                    lines.append('  harness=%s assertion=%s inputs=%s native=%s' % (
                        key, v['label'], json.dumps({x['name']: x['bits'] for x in v['values']})[:400], json.dumps(res)[:300]))
        for sig, n in viol_count.items():
            if n > 2:
                lines.append('  ... %d confirmed counterexamples in total for harness=%s assertion=%s (all under evidence/replays/)' % (n, sig[0], sig[1]))
        seen_unc = {}
        for r, v, path, res in unconfirmed:
            sig = (entry_key(r['entry']), v['label'])
            seen_unc[sig] = seen_unc.get(sig, 0) + 1
            if seen_unc[sig] > 1:
                continue
            lines.append('UNCONFIRMED property=%s harness=%s assertion=%s (model did not reproduce natively: %s) replay=%s' % (
                pid, entry_key(r['entry']), v['label'], json.dumps(res)[:200], path))
        # inconclusive items
        for r in results:
            for u in sorted(set(r['unsupported'])):
                lines.append('INCONCLUSIVE property=%s harness=%s %s' % (pid, entry_key(r['entry']), u))
            if r['unknown']:
                lines.append('INCONCLUSIVE property=%s harness=%s %d solver unknown/timeouts (first: %s)' % (
                    pid, entry_key(r['entry']), len(r['unknown']), r['unknown'][0]))
            if r['unwinding_failures']:
                lines.append('INCONCLUSIVE property=%s harness=%s %d unwinding failures' % (pid, entry_key(r['entry']), r['unwinding_failures']))
            if r.get('traceback') and not any(l.startswith('Traceback') for l in lines):
                lines.append(r['traceback'])
        for m in missing:
            lines.append('INCONCLUSIVE property=%s entry %s not found in the harness package' % (pid, m))
        for mm in mismatches[:5]:
            lines.append('INCONCLUSIVE property=%s TRANSLATION-MISMATCH harness=%s: a path witness runs differently natively: %s' % (pid, mm['harness'], json.dumps(mm)[:400]))
        # vacuity: required covers
        vac = []
        agg = {}
        for r in results:
            a = agg.setdefault(entry_key(r['entry']), {'covers': {}, 'unsupported': False})
            for c, n in r['covers'].items():
                a['covers'][c] = a['covers'].get(c, 0) + n
            a['unsupported'] = a['unsupported'] or bool(r['unsupported'])
        for key, a in agg.items():
            for c in proptable.required_covers(pid, key):
                if a['covers'].get(c, 0) == 0 and not a['unsupported']:
                    vac.append((key, c))
        for e, c in vac:
            lines.append('VACUOUS property=%s harness=%s cover %s not reached' % (pid, e, c))
        wall = time.time() - t_start
        write_evidence(pid, tier, seed, spec, ir, results, confirmed, unconfirmed, wall, known_hits=known_hits,
                       fe_time=fe_time, vacuous=vac, missing=missing, selftest=st_res, cross=xs, validated=validated, mismatches=mismatches, notcomparable=notcomparable, violations=sum(viol_count.values()))
        tot_paths = sum(r['paths'] for r in results)
        tot_q = sum(r.get('solver', {}).get('queries', 0) for r in results)
        lines.append('property=%s tier=%s harness-instantiations=%d paths=%d solver-queries=%d wall=%.1fs exit=%d' % (
            pid, tier, len(results), tot_paths, tot_q, wall, exit_code))
    finally:
        shutil.rmtree(scratch, ignore_errors=True)
    print('\n'.join(lines))
    return exit_code


def write_evidence(pid, tier, seed, spec, ir, results, confirmed, unconfirmed, wall, known_hits=(), fe_time=0.0,
                   vacuous=(), missing=(), note=None, violations=0, validated=0, mismatches=(), notcomparable=0, selftest=None, cross=None):
    from . import stubs
    states = sum(r['paths'] for r in results)
    trans = sum(r['instrs'] for r in results)
    q = {'sat': 0, 'unsat': 0, 'unknown': 0, 'queries': 0, 'time': 0.0}
    for r in results:
        for k in q:
            q[k] += r.get('solver', {}).get(k, 0)
    asserts = {}
    for r in results:
        for lab, a in r['asserts'].items():
            d = asserts.setdefault(lab, {'checked': 0, 'failed': 0, 'unknown': 0, 'trivial': 0})
            for k in d:
                d[k] += a.get(k, 0)
    samples = []
    for r in results[:40]:
        for s in r['samples'][:2]:
            samples.append(dict(s, harness=entry_key(r['entry'])))
        if len(samples) >= 12:
            break
    if not samples:
        samples = [{'note': note or 'no path completed'}]
    inconclusive = []
    for r in results:
        if r['unsupported'] or r['unknown'] or r['unwinding_failures']:
            inconclusive.append({'harness': entry_key(r['entry']), 'unsupported': sorted(set(r['unsupported']))[:5],
                                 'unknown': len(r['unknown']), 'unwinding_failures': r['unwinding_failures']})
    ev = {
        'property_id': pid, 'tier': tier, 'seed': seed, 'level': 'model_checking',
        'coverage': {
            'states': max(states, 0), 'transitions': max(trans, 0),
            'traces_validated_against_impl': validated + len(confirmed) + sum(v.get('cases', 0) for v in (selftest or {}).values() if not v.get('mismatches')),
            'translator_selftest': selftest or {},
            'cross_solver': cross or {},
            'path_witnesses': {'agreed_with_native_run': validated, 'mismatches': list(mismatches)[:10], 'not_comparable': notcomparable,
                               'rule': 'for up to 2 completed symbolic paths per harness instantiation the solver produces a concrete input of that path; the natively compiled harness must finish without a failed assertion and reach exactly the same Cover labels'},
            'samples': samples,
            'explanation': 'symbolic execution of the go/ssa of the current /repo tree; states = feasible symbolic paths explored to completion, transitions = SSA instructions executed symbolically; every assertion is an SMT query over all inputs of that path',
            'technique': 'SSA->SMT symbolic execution (z3), counterexamples replayed natively',
            'harness_instantiations': [{'harness': entry_key(r['entry']), 'mode': r.get('mode'), 'paths': r['paths'], 'instrs': r['instrs'],
                                        'wall_s': r['wall_s'], 'params': r['params'], 'case_split_slice': r.get('fix'), 'ended': r['ended'],
                                        'max_loop_unrolling': r.get('max_loop', 0),
                                        'queries': r.get('solver', {}).get('queries', 0)} for r in results],
            'functions_encoded': functions_encoded(ir) if ir else [],
            'tree_hash': tree_hash(),
            'bounds': (spec.get('bounds') or {}).get(tier) if isinstance(spec.get('bounds'), dict) else spec.get('bounds'),
            'outside_bounds': spec.get('outside', []),
            'queries': {'sat': q['sat'], 'unsat': q['unsat'], 'unknown': q['unknown'], 'total': q['queries']},
            'solver_time_s': round(q['time'], 3), 'frontend_time_s': round(fe_time, 3),
            'solver': 'z3 %s (python binding, in-process, incremental push/pop)' % _z3ver(),
            'assertions': asserts,
            'covers': _sum_covers(results),
            'unwinding': {'limit_per_loop': 80, 'failures': sum(r['unwinding_failures'] for r in results),
                          'max_seen': max([r.get('max_loop', 0) for r in results] or [0])},
            'stubs': stubs.DESCRIPTIONS,
            'replays_confirmed': [{'harness': entry_key(r['entry']), 'label': v['label'], 'replay': p} for r, v, p, _ in confirmed][:50],
            'replays_unconfirmed': [{'harness': entry_key(r['entry']), 'label': v['label'], 'replay': p} for r, v, p, _ in unconfirmed][:50],
            'known_findings_hit': list(known_hits)[:50],
            'inconclusive': inconclusive, 'vacuous': [list(v) for v in vacuous], 'missing_entries': list(missing),
        },
        'assumptions': spec.get('assumptions', []) + [
            'target: gc toolchain %s on amd64 (int is 64 bit; float->int out-of-range results follow the amd64 lowering)' % (ir['go'] if ir else '?'),
            'the SSA->SMT translator (gosmt/) and the stubs listed under coverage.stubs are trusted; counterexamples are only reported after native replay',
        ],
        'wall_s': round(wall, 3),
        'violations': violations,
    }
    if note:
        ev['coverage']['note'] = note
    os.makedirs(EVDIR, exist_ok=True)
    json.dump(ev, open(os.path.join(EVDIR, pid + '.json'), 'w'), indent=1)


def cross_solver(results, scratch, limit):
    """re-decide exported queries with z3 4.8.12 (/usr/bin/z3) and cvc5 1.0; any '(error' or other answer = inconclusive"""
    out = {'queries': 0, 'z3_4_8_12_agree': 0, 'cvc5_agree': 0, 'z3_other': 0, 'cvc5_other': 0, 'disagreements': [],
           'solvers': ['z3 5.1.0 (deciding, in-process)', 'z3 4.8.12 (/usr/bin/z3)', 'cvc5 1.0 (/usr/bin/cvc5)']}
    todo = []
    for r in results:
        for e in r.get('exports', []):
            todo.append((entry_key(r['entry']), e))
    # spread over harnesses
    todo = todo[:: max(1, len(todo) // limit)][:limit] if todo else []
    xd = os.path.join(scratch, 'xs')
    os.makedirs(xd, exist_ok=True)
    for i, (key, e) in enumerate(todo):
        out['queries'] += 1
        f = os.path.join(xd, 'q%d.smt2' % i)
        open(f, 'w').write(e['smt2'])
        f2 = os.path.join(xd, 'q%d_c.smt2' % i)
        open(f2, 'w').write('(set-logic ALL)\n' + e['smt2'])
        for name, cmd in (('z3', ['/usr/bin/z3', '-T:10', f]), ('cvc5', ['/usr/bin/cvc5', '--tlimit=10000', f2])):
            try:
                p = subprocess.run(cmd, stdout=subprocess.PIPE, stderr=subprocess.STDOUT, timeout=40)
                o = p.stdout.decode(errors='replace')
            except Exception as ex:
                o = 'timeout'
            first = o.strip().splitlines()[0].strip() if o.strip() else ''
            if '(error' in o or first not in ('sat', 'unsat'):
                out['z3_other' if name == 'z3' else 'cvc5_other'] += 1
            elif first == e['result']:
                out['z3_4_8_12_agree' if name == 'z3' else 'cvc5_agree'] += 1
            else:
                out['disagreements'].append({'harness': key, 'label': e['label'], 'z3_5_1': e['result'], name: first})
    return out


def _sum_covers(results):
    c = {}
    for r in results:
        for k, v in r['covers'].items():
            c[k] = c.get(k, 0) + v
    return c


def _z3ver():
    try:
        import z3
        return z3.get_version_string()
    except Exception:
        return '?'


def replay_only(path):
    scratch = make_scratch()
    try:
        rexe = os.path.join(scratch, 'replay.bin')
        rc, out, err = sh(['go', 'build', '-o', rexe, './cmd/replay'], cwd=scratch, timeout=900)
        if rc != 0:
            print(err)
            return 2
        rc, out, err = sh([rexe, path], timeout=120)
        print(out.strip())
        vec = json.load(open(path))
        res = json.loads(out.strip().splitlines()[-1])
        bad = res.get('status') in ('assert-failed', 'panic')
        if bad:
            print('VIOLATION reproduced: harness=%s failed=%s panic=%s' % (vec['entry'], res.get('failed'), res.get('panic')))
        return 1 if bad else 0
    finally:
        shutil.rmtree(scratch, ignore_errors=True)


def main():
    if len(sys.argv) >= 3 and sys.argv[1] == '--replay':
        sys.exit(replay_only(sys.argv[2]))
    pid = sys.argv[1]
    tier = sys.argv[2] if len(sys.argv) > 2 else os.environ.get('VERIF_TIER', 'quick')
    seed = int(os.environ.get('VERIF_SEED', '0') or 0)
    sys.exit(run_check(pid, tier, seed))


if __name__ == '__main__':
    main()
