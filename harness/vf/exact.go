package vf

import (
	"math"
	"math/big"
	"math/bits"
)

// Float types.
type Float interface{ ~float32 | ~float64 }

func binade(x float64) int {
	_, e := math.Frexp(math.Abs(x))
	return e - 1
}

// FloatIn returns an arbitrary finite value with 2^lo <= |x| < 2^(hi+1) of either sign.
// (Value mode: the executor forks over sign and binade and keeps the significand symbolic.)
func FloatIn[T Float](name string, lo, hi int) T {
	v := Any[T](name)
	if defaulted {
		return T(math.Ldexp(1, lo))
	}
	x := float64(v)
	if x == 0 || math.IsNaN(x) || math.IsInf(x, 0) || binade(x) < lo || binade(x) > hi {
		panic(Invalid{"FloatIn " + name})
	}
	return v
}

// FloatLike returns another arbitrary value with the sign and binade of f.
func FloatLike[T Float](f T, name string) T {
	v := Any[T](name)
	if defaulted {
		return f
	}
	x, y := float64(f), float64(v)
	if y == 0 || math.IsNaN(y) || math.IsInf(y, 0) || math.Signbit(x) != math.Signbit(y) || binade(x) != binade(y) {
		panic(Invalid{"FloatLike " + name})
	}
	return v
}

// Binade is floor(log2 |f|) of a finite non-zero float.
func Binade[T Float](f T) int { return binade(float64(f)) }

// IntClass returns an arbitrary value of T (value mode: forked over sign and bit length).
func IntClass[T Integer](name string) T { return Any[T](name) }

func class[T Integer](x T) (neg bool, l int) {
	if x < 0 {
		// magnitude of a negative value, computed without overflow
		return true, bits.Len64(uint64(-(int64(x) + 1)) + 1)
	}
	return false, bits.Len64(uint64(x))
}

// IntLike returns another arbitrary value with the sign and bit length of x.
func IntLike[T Integer](x T, name string) T {
	v := Any[T](name)
	if defaulted {
		return x
	}
	n1, l1 := class(x)
	n2, l2 := class(v)
	if n1 != n2 || l1 != l2 {
		panic(Invalid{"IntLike " + name})
	}
	return v
}

func ratOfFloat(x float64) *big.Rat {
	r := new(big.Rat)
	r.SetFloat64(x)
	return r
}

func pow2(e int) *big.Rat {
	r := new(big.Rat)
	if e >= 0 {
		r.SetInt(new(big.Int).Lsh(big.NewInt(1), uint(e)))
	} else {
		r.SetFrac(big.NewInt(1), new(big.Int).Lsh(big.NewInt(1), uint(-e)))
	}
	return r
}

// ScaledDiffLE reports |f*scale - r| <= tol, computed exactly.
func ScaledDiffLE[T Float](f T, scale uint64, r int64, tol int64) bool {
	x := float64(f)
	if math.IsNaN(x) || math.IsInf(x, 0) {
		return false
	}
	d := new(big.Rat).Mul(ratOfFloat(x), new(big.Rat).SetInt(new(big.Int).SetUint64(scale)))
	d.Sub(d, new(big.Rat).SetInt64(r))
	d.Abs(d)
	return d.Cmp(new(big.Rat).SetInt64(tol)) <= 0
}

// RatioDiffLE reports |f - num/den| <= 2^e1 + 2^e2, computed exactly (den > 0).
func RatioDiffLE[T Float](f T, num int64, den uint64, e1, e2 int) bool {
	x := float64(f)
	if math.IsNaN(x) || math.IsInf(x, 0) || den == 0 {
		return false
	}
	q := new(big.Rat).SetFrac(big.NewInt(num), new(big.Int).SetUint64(den))
	d := new(big.Rat).Sub(ratOfFloat(x), q)
	d.Abs(d)
	tol := new(big.Rat).Add(pow2(e1), pow2(e2))
	return d.Cmp(tol) <= 0
}

// LinDiffLE reports |a*ca - b*cb| <= t0 + |b*cb| * 2^k, computed exactly (k <= 0).
func LinDiffLE(a int64, ca float64, b int64, cb float64, t0 float64, k int) bool {
	A := new(big.Rat).Mul(new(big.Rat).SetInt64(a), ratOfFloat(ca))
	B := new(big.Rat).Mul(new(big.Rat).SetInt64(b), ratOfFloat(cb))
	d := new(big.Rat).Sub(A, B)
	d.Abs(d)
	absB := new(big.Rat).Abs(B)
	bound := new(big.Rat).Add(ratOfFloat(t0), absB.Mul(absB, pow2(k)))
	return d.Cmp(bound) <= 0
}
