// Package vf holds the harness intrinsics. The symbolic executor intercepts
// every function of this package by name; the bodies below are the *native*
// semantics used when a solver model is replayed against the real build.
package vf

import (
	"encoding/json"
	"fmt"
	"math"
	"os"
	"runtime"
	"strconv"
	"sync"
	"unsafe"
)

// Scalar is every type a nondeterministic value can have.
type Scalar interface {
	~int | ~int8 | ~int16 | ~int32 | ~int64 | ~uint | ~uint8 | ~uint16 | ~uint32 | ~uint64 | ~uintptr | ~float32 | ~float64
}

// Integer types.
type Integer interface {
	~int | ~int8 | ~int16 | ~int32 | ~int64 | ~uint | ~uint8 | ~uint16 | ~uint32 | ~uint64 | ~uintptr
}

// Vector is a replay vector: values of the nondeterministic calls in call order.
type Vector struct {
	Entry  string  `json:"entry"`
	Values []Value `json:"values"`
	// Label of the assertion the solver claims to fail ("" = unexpected panic).
	Label string `json:"label"`
	// Params are the tier bounds the symbolic run used.
	Params map[string]int `json:"params"`
	// Lenient: the vector covers only a prefix of the run (the symbolic executor stopped at a construct it
	// cannot encode); missing values default to the lowest admissible value.
	Lenient bool `json:"lenient"`
}

// Value is one nondeterministic result: Bits is the two's complement / IEEE bit pattern.
type Value struct {
	Name string `json:"name"`
	Bits string `json:"bits"`
}

// Invalid is panicked by Assume(false) and by an exhausted vector during replay.
type Invalid struct{ Why string }

var (
	vec     *Vector
	next    int
	Failed  []string // labels of failed assertions
	Covered []string
)

// Load installs a replay vector.
func Load(path string) (*Vector, error) {
	b, err := os.ReadFile(path)
	if err != nil {
		return nil, err
	}
	v := &Vector{}
	if err := json.Unmarshal(b, v); err != nil {
		return nil, err
	}
	vec, next, Failed, Covered = v, 0, nil, nil
	once = map[string]int{}
	owners = map[any]int{}
	return v, nil
}

var defaulted bool // the last pop returned a lenient default

func pop(name string) uint64 {
	defaulted = false
	if vec != nil && vec.Lenient && (next >= len(vec.Values) || vec.Values[next].Name != name) {
		defaulted = true
		return 0
	}
	if vec == nil || next >= len(vec.Values) {
		panic(Invalid{"replay vector exhausted at " + name})
	}
	v := vec.Values[next]
	next++
	if v.Name != name {
		panic(Invalid{fmt.Sprintf("replay vector out of step: want %s have %s", name, v.Name)})
	}
	u, err := strconv.ParseUint(v.Bits, 10, 64)
	if err != nil {
		panic(Invalid{"bad bits " + v.Bits})
	}
	return u
}

// Any returns an arbitrary value of T.
func Any[T Scalar](name string) T {
	u := pop(name)
	var z T
	switch any(z).(type) {
	case float32:
		f := math.Float32frombits(uint32(u))
		return T(f)
	case float64:
		f := math.Float64frombits(u)
		return T(f)
	}
	// named float types and integers
	var probe T = 1
	if probe/2 != 0 { // float kind
		if isF32[T]() {
			return T(math.Float32frombits(uint32(u)))
		}
		return T(math.Float64frombits(u))
	}
	return T(u) // truncating conversion of the two's complement pattern
}

func isF32[T Scalar]() bool {
	var z T
	return unsafe.Sizeof(z) == 4
}

// IntRange returns an arbitrary int in [lo,hi].
func IntRange(name string, lo, hi int) int {
	x := int(pop(name))
	if defaulted && lo <= hi {
		return lo
	}
	if x < lo || x > hi {
		panic(Invalid{"IntRange " + name})
	}
	return x
}

// Concretize returns x; the executor forks over every feasible value of x.
func Concretize[T Integer](x T) T { return x }

// Assume restricts the inputs.
func Assume(c bool) {
	if !c {
		panic(Invalid{"assumption false"})
	}
}

var mu sync.Mutex

// Assert states the property.
func Assert(label string, c bool) {
	if !c {
		mu.Lock()
		Failed = append(Failed, label)
		mu.Unlock()
	}
}

// Cover marks a location that must be reachable (vacuity guard).
func Cover(label string) {
	mu.Lock()
	Covered = append(Covered, label)
	mu.Unlock()
}

// Panics runs f and reports whether it panicked.
func Panics(f func()) (p bool) {
	defer func() {
		if r := recover(); r != nil {
			if inv, ok := r.(Invalid); ok {
				panic(inv)
			}
			p = true
		}
	}()
	f()
	return false
}

// SameBits compares two samples by representation (NaN equals the same NaN).
func SameBits[T Scalar](a, b T) bool {
	var probe T = 1
	if probe/2 != 0 {
		if isF32[T]() {
			return math.Float32bits(float32(a)) == math.Float32bits(float32(b))
		}
		return math.Float64bits(float64(a)) == math.Float64bits(float64(b))
	}
	return a == b
}

// SameVal compares two samples as values, NaN == NaN, +0 == -0 distinguished by bits only for floats.
func SameVal[T Scalar](a, b T) bool {
	return a == b || (a != a && b != b)
}

// Unreachable marks code that must never execute.
func Unreachable(label string) { Failed = append(Failed, "unreachable:"+label) }

// Param is a tier-dependent bound (the executor substitutes the configured value).
func Param(name string, def int) int {
	if vec != nil {
		if v, ok := vec.Params[name]; ok {
			return v
		}
	}
	return def
}

// Choice returns an arbitrary value in [0,n); the executor forks over all of them.
func Choice(name string, n int) int {
	x := int(pop(name))
	if x < 0 || x >= n {
		panic(Invalid{"Choice " + name})
	}
	return x
}

// Implies is material implication without short-circuit control flow.
func Implies(a, b bool) bool { return !a || b }

// Ite selects without control flow.
func Ite[T any](c bool, a, b T) T {
	if c {
		return a
	}
	return b
}

// Pick returns an arbitrary int in [lo,hi]; the executor case-splits over all of them.
func Pick(name string, lo, hi int) int { return IntRange(name, lo, hi) }

// Allocs runs f once and returns the number of heap allocations it performed.
// (The executor counts allocation-capable SSA instructions executed inside f.)
func Allocs(f func()) int {
	var m1, m2 runtime.MemStats
	runtime.ReadMemStats(&m1)
	f()
	runtime.ReadMemStats(&m2)
	return int(m2.Mallocs - m1.Mallocs)
}

// Par runs the functions as concurrent goroutines and waits for all of them. The executor explores
// every interleaving at synchronisation granularity and checks every pair of accesses for data races.
// Nondeterministic values must be drawn before Par, not inside the goroutines.
func Par(fs ...func()) {
	var wg sync.WaitGroup
	panics := make([]any, len(fs))
	for i, f := range fs {
		wg.Add(1)
		go func(i int, f func()) {
			defer wg.Done()
			defer func() { panics[i] = recover() }()
			f()
		}(i, f)
	}
	wg.Wait()
	for _, p := range panics {
		if p != nil {
			panic(p)
		}
	}
}

// Own / Release are ghost operations: the executor asserts that a buffer (header and storage) is
// held by at most one goroutine at a time. Natively they keep the same bookkeeping under a mutex.
var owners = map[any]int{}

func Own[T any](b *T, who int) {
	mu.Lock()
	if o, ok := owners[b]; ok && o != who {
		Failed = append(Failed, "exclusive-ownership")
	}
	owners[b] = who
	mu.Unlock()
}

func Release[T any](b *T, who int) {
	runtime.Gosched() // let the others run while the buffer is still held
	mu.Lock()
	if owners[b] == who {
		delete(owners, b)
	}
	mu.Unlock()
}

var once = map[string]int{}

// PickOnce is Pick, but every call with the same name in one run returns the first call's value.
func PickOnce(name string, lo, hi int) int {
	mu.Lock()
	defer mu.Unlock()
	if v, ok := once[name]; ok {
		return v
	}
	v := IntRange(name, lo, hi)
	once[name] = v
	return v
}
