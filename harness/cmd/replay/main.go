// replay runs one harness entry natively against the real build with a
// replay vector written from a solver model.
package main

import (
	"encoding/json"
	"fmt"
	"os"
	"strconv"

	"verifharness/props"
	"verifharness/vf"
)

type result struct {
	Entry   string   `json:"entry"`
	Status  string   `json:"status"` // ok | assert-failed | panic | invalid | no-entry
	Failed  []string `json:"failed,omitempty"`
	Panic   string   `json:"panic,omitempty"`
	Covered []string `json:"covered,omitempty"`
}

func run(path string) (res result) {
	v, err := vf.Load(path)
	if err != nil {
		return result{Status: "invalid", Panic: err.Error()}
	}
	res.Entry = v.Entry
	f, ok := props.Entries[v.Entry]
	if !ok {
		res.Status = "no-entry"
		return
	}
	defer func() {
		if r := recover(); r != nil {
			if inv, ok := r.(vf.Invalid); ok {
				res.Status, res.Panic = "invalid", inv.Why
				res.Failed = vf.Failed
				return
			}
			res.Status, res.Panic = "panic", fmt.Sprint(r)
			res.Failed = vf.Failed
		}
	}()
	f()
	res.Failed, res.Covered = vf.Failed, vf.Covered
	if len(vf.Failed) > 0 {
		res.Status = "assert-failed"
	} else {
		res.Status = "ok"
	}
	return
}

func main() {
	enc := json.NewEncoder(os.Stdout)
	repeat := 1
	if r, err := strconv.Atoi(os.Getenv("VF_REPEAT")); err == nil && r > 1 {
		repeat = r // stress mode for schedule-dependent counterexamples (concurrency harnesses)
	}
	for _, p := range os.Args[1:] {
		var res result
		for i := 0; i < repeat; i++ {
			res = run(p)
			if res.Status != "ok" && res.Status != "invalid" {
				break
			}
		}
		enc.Encode(res)
	}
}
