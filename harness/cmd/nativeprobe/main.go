// nativeprobe prints what the native toolchain/runtime does for the two environment models of the
// executor: append growth capacities and float->integer conversions (JSON on stdout).
package main

import (
	"encoding/json"
	"math"
	"os"
)

type growRow struct {
	Size, OldCap, OldLen, Add, NewCap int
}

func grow[T any](size int, rows *[]growRow) {
	for oc := 0; oc <= 40; oc++ {
		for _, ol := range []int{0, oc / 2, oc} {
			if ol > oc {
				continue
			}
			for add := 1; add <= 24; add++ {
				if ol+add <= oc {
					continue
				}
				s := make([]T, ol, oc)
				t := make([]T, add)
				s = append(s, t...)
				*rows = append(*rows, growRow{size, oc, ol, add, cap(s)})
			}
		}
	}
}

type convRow struct {
	Bits string            `json:"bits"` // float64 bit pattern
	R    map[string]string `json:"r"`    // type -> two's complement result as unsigned decimal
}

//go:noinline
func conv(x float64) map[string]uint64 {
	return map[string]uint64{
		"int8": uint64(uint8(int8(x))), "int16": uint64(uint16(int16(x))), "int32": uint64(uint32(int32(x))), "int64": uint64(int64(x)), "int": uint64(int(x)),
		"uint8": uint64(uint8(x)), "uint16": uint64(uint16(x)), "uint32": uint64(uint32(x)), "uint64": uint64(x), "uint": uint64(uint(x)), "uintptr": uint64(uintptr(x)),
	}
}

func main() {
	var rows []growRow
	grow[int8](1, &rows)
	grow[int16](2, &rows)
	grow[int32](4, &rows)
	grow[int64](8, &rows)
	var vals []float64
	for _, b := range []float64{0, 1, 127, 128, 255, 256, 32767, 32768, 65535, 65536, 2147483647, 2147483648, 4294967295, 4294967296,
		9223372036854775807, 9223372036854775808, 18446744073709551615, 18446744073709551616, 1e30, 0.5, 0.999, 1.5} {
		for _, s := range []float64{1, -1} {
			x := s * b
			vals = append(vals, x, math.Nextafter(x, math.Inf(1)), math.Nextafter(x, math.Inf(-1)), x+0.5, x-0.5, x+1, x-1)
		}
	}
	vals = append(vals, math.Inf(1), math.Inf(-1), math.NaN(), math.Copysign(0, -1), math.SmallestNonzeroFloat64, math.MaxFloat64, -math.MaxFloat64)
	var crow []convRow
	for _, x := range vals {
		r := map[string]string{}
		for k, v := range conv(x) {
			r[k] = itoa(v)
		}
		crow = append(crow, convRow{itoa(math.Float64bits(x)), r})
	}
	json.NewEncoder(os.Stdout).Encode(map[string]any{"grow": rows, "conv": crow})
}

func itoa(v uint64) string {
	if v == 0 {
		return "0"
	}
	var b [20]byte
	i := len(b)
	for v > 0 {
		i--
		b[i] = byte('0' + v%10)
		v /= 10
	}
	return string(b[i:])
}
