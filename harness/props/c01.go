package props

import (
	"pipelined.dev/signal"
	"verifharness/vf"
)

// representable: v survives the conversion to D and back (the property's "values representable in both").
func representable[S, D signal.SignalTypes](v S) bool {
	return vf.SameVal(S(D(v)), v)
}

func anySlice[T signal.SignalTypes](name string, n int) []T {
	s := make([]T, n)
	for i := range s {
		s[i] = vf.Any[T](name)
	}
	return s
}

func clone[T any](s []T) []T {
	c := make([]T, len(s))
	copy(c, s)
	return c
}

// C01_Write: interleaved writer into a window of a larger buffer.
func C01_Write[S, D signal.SignalTypes]() {
	C, K := shape()
	base := allocAny[D](C, K, "base")
	s, e := window("w", K)
	w := base.Slice(s, e)
	extra := vf.Pick("extra", 0, C-1) // unaligned lengths via single-sample appends
	for i := 0; i < extra; i++ {
		w.AppendSample(vf.Any[D]("pad"))
	}
	n := vf.Pick("n", 0, C*K+2)
	src := anySlice[S]("src", n)
	orig := clone(src)
	l0, c0 := w.Len(), w.Cap()
	k := 0
	var before D
	if base.Len() > 0 {
		k = vf.IntRange("k", 0, base.Len()-1)
		before = base.Sample(k)
	}
	got := signal.Write(src, w)
	m := l0
	if n < m {
		m = n
	}
	vf.Assert("returns-frames-covered", got == ceilDiv(m, C))
	vf.Assert("shape-unchanged", w.Len() == l0 && w.Cap() == c0 && base.Len() == C*K)
	if base.Len() > 0 {
		p := k - C*s // position inside the window
		if p >= 0 && p < m {
			vf.Cover("written")
			vf.Assert("written-sample", vf.Implies(representable[S, D](orig[p]), vf.SameBits(base.Sample(k), D(orig[p]))))
		} else {
			vf.Cover("untouched")
			vf.Assert("other-samples-untouched", vf.SameBits(base.Sample(k), before))
		}
	}
	if n > 0 {
		j := vf.IntRange("j", 0, n-1)
		vf.Assert("source-untouched", vf.SameBits(src[j], orig[j]))
	}
}

// C01_Read: interleaved reader from a window into a caller slice.
func C01_Read[S, D signal.SignalTypes]() {
	C, K := shape()
	base := allocAny[S](C, K, "base")
	s, e := window("w", K)
	w := base.Slice(s, e)
	extra := vf.Pick("extra", 0, C-1)
	for i := 0; i < extra; i++ {
		w.AppendSample(vf.Any[S]("pad"))
	}
	n := vf.Pick("n", 0, C*K+2)
	dst := anySlice[D]("dst", n)
	orig := clone(dst)
	l0, c0 := w.Len(), w.Cap()
	got := signal.Read(w, dst)
	m := l0
	if n < m {
		m = n
	}
	vf.Assert("returns-frames-covered", got == ceilDiv(m, C))
	vf.Assert("shape-unchanged", w.Len() == l0 && w.Cap() == c0 && base.Len() == C*K)
	vf.Assert("dst-len-unchanged", len(dst) == n)
	if n > 0 {
		j := vf.IntRange("j", 0, n-1)
		if j < m {
			vf.Cover("read")
			v := base.Sample(C*s + j)
			vf.Assert("read-sample", vf.Implies(representable[S, D](v), vf.SameBits(dst[j], D(v))))
		} else {
			vf.Cover("beyond")
			vf.Assert("rest-of-slice-untouched", vf.SameBits(dst[j], orig[j]))
		}
	}
	if base.Len() > 0 {
		k := vf.IntRange("k", 0, base.Len()-1)
		_ = k
	}
}

// C01_ReadKeepsBuffer: reading changes no sample of the storage.
func C01_ReadKeepsBuffer[S, D signal.SignalTypes]() {
	C, K := shape()
	base := allocAny[S](C, K, "base")
	s, e := window("w", K)
	w := base.Slice(s, e)
	n := vf.Pick("n", 0, C*K+2)
	dst := anySlice[D]("dst", n)
	if base.Len() == 0 {
		return
	}
	k := vf.IntRange("k", 0, base.Len()-1)
	before := base.Sample(k)
	signal.Read(w, dst)
	vf.Assert("buffer-untouched-by-read", vf.SameBits(base.Sample(k), before))
	striped := stripedSlices[D](C, K, "d")
	vf.Panics(func() { signal.ReadStriped(w, striped) })
	vf.Assert("buffer-untouched-by-read-striped", vf.SameBits(base.Sample(k), before))
}

// stripedSlices builds C per-channel slices, each nil or of length 0..K+1 (case split).
func stripedSlices[T signal.SignalTypes](C, K int, name string) [][]T {
	out := make([][]T, C)
	for c := 0; c < C; c++ {
		l := vf.Pick(name+".len", -1, K+1)
		if l >= 0 {
			out[c] = anySlice[T](name, l)
		}
	}
	return out
}

func clone2[T any](s [][]T) [][]T {
	out := make([][]T, len(s))
	for i := range s {
		if s[i] != nil {
			out[i] = clone(s[i])
		}
	}
	return out
}

// C01_WriteStriped: per-channel writer into a frame-aligned window.
func C01_WriteStriped[S, D signal.SignalTypes]() {
	C, K := shape()
	base := allocAny[D](C, K, "base")
	s, e := window("w", K)
	w := base.Slice(s, e)
	src := stripedSlices[S](C, K, "src")
	orig := clone2(src)
	longest := 0
	for c := range src {
		if len(src[c]) > longest {
			longest = len(src[c])
		}
	}
	want := longest
	if e-s < want {
		want = e - s
	}
	l0, c0 := w.Len(), w.Cap()
	// witnesses: one (frame, channel) inside the covered frames, one position anywhere outside them
	wc := vf.Pick("wc", 0, C-1)
	wi, k := 0, 0
	var before D
	if want > 0 {
		wi = vf.IntRange("wi", 0, want-1)
	}
	outside := base.Len() > C*want
	if outside {
		k = vf.IntRange("k", 0, base.Len()-1)
		vf.Assume(k < C*s || k >= C*(s+want))
		before = base.Sample(k)
	}
	got := signal.WriteStriped(src, w)
	vf.Assert("returns-frames-covered", got == want)
	vf.Assert("shape-unchanged", w.Len() == l0 && w.Cap() == c0 && base.Len() == C*K)
	if want > 0 {
		stored := base.Sample(C*(s+wi) + wc)
		if len(orig[wc]) > 0 {
			vf.Cover("written")
			in := wi < len(orig[wc])
			v := orig[wc][vf.Ite(in, wi, 0)] // index kept in range; the implication is vacuous otherwise
			vf.Assert("written-sample-at-C*i+c", vf.Implies(in, vf.Implies(representable[S, D](v), vf.SameBits(stored, D(v)))))
		}
		if len(orig[wc]) < want {
			vf.Cover("zero-filled")
			vf.Assert("short-channel-zero-filled", vf.Implies(wi >= len(orig[wc]), stored == 0))
		}
	}
	if outside {
		vf.Cover("untouched")
		vf.Assert("other-samples-untouched", vf.SameBits(base.Sample(k), before))
	}
	for c := range src {
		vf.Assert("source-slice-header", len(src[c]) == len(orig[c]) && (src[c] == nil) == (orig[c] == nil))
		if len(src[c]) > 0 {
			j := vf.IntRange("j", 0, len(src[c])-1)
			vf.Assert("source-untouched", vf.SameBits(src[c][j], orig[c][j]))
		}
	}
}

// C01_ReadStriped: per-channel reader from a frame-aligned window.
func C01_ReadStriped[S, D signal.SignalTypes]() {
	C, K := shape()
	base := allocAny[S](C, K, "base")
	s, e := window("w", K)
	w := base.Slice(s, e)
	dst := stripedSlices[D](C, K, "dst")
	orig := clone2(dst)
	want := 0
	for c := range dst {
		l := len(dst[c])
		if e-s < l {
			l = e - s
		}
		if l > want {
			want = l
		}
	}
	l0, c0 := w.Len(), w.Cap()
	got := signal.ReadStriped(w, dst)
	vf.Assert("returns-longest-read", got == want)
	vf.Assert("shape-unchanged", w.Len() == l0 && w.Cap() == c0 && base.Len() == C*K)
	for c := range dst {
		vf.Assert("dst-slice-header", len(dst[c]) == len(orig[c]) && (dst[c] == nil) == (orig[c] == nil))
		if len(dst[c]) > 0 {
			j := vf.IntRange("j", 0, len(dst[c])-1)
			if j < e-s {
				vf.Cover("read")
				v := base.Sample(C*(s+j) + c)
				vf.Assert("read-sample-from-C*i+c", vf.Implies(representable[S, D](v), vf.SameBits(dst[c][j], D(v))))
			} else {
				vf.Cover("beyond")
				vf.Assert("rest-of-slice-untouched", vf.SameBits(dst[c][j], orig[c][j]))
			}
		}
	}
}

// C01_RoundTrip: what either writer stored is returned by either reader.
func C01_RoundTrip[S, D signal.SignalTypes]() {
	C := vf.Pick("C", 1, vf.Param("MaxC", 3))
	K := vf.Pick("K", 1, vf.Param("MaxK", 3))
	base := allocAny[D](C, K, "base")
	s, e := window("w", K)
	w := base.Slice(s, e)
	L := e - s
	if L == 0 {
		return
	}
	src := anySlice[S]("src", C*L)
	for i := range src {
		vf.Assume(representable[S, D](src[i]))
	}
	// interleaved write
	vf.Assert("write-count", signal.Write(src, w) == L)
	i := vf.Pick("i", 0, L-1)
	c := vf.Pick("c", 0, C-1)
	v := src[C*i+c]
	back := make([]S, C*L)
	vf.Assert("read-count", signal.Read(w, back) == L)
	vf.Assert("interleaved-write-interleaved-read", vf.SameVal(back[C*i+c], v))
	str := make([][]S, C)
	for ch := range str {
		str[ch] = make([]S, L)
	}
	vf.Assert("read-striped-count", signal.ReadStriped(w, str) == L)
	vf.Assert("interleaved-write-striped-read", vf.SameVal(str[c][i], v))
	// striped write of fresh values
	in := make([][]S, C)
	for ch := range in {
		in[ch] = anySlice[S]("in", L)
		for j := range in[ch] {
			vf.Assume(representable[S, D](in[ch][j]))
		}
	}
	vf.Assert("write-striped-count", signal.WriteStriped(in, w) == L)
	v2 := in[c][i]
	vf.Assert("striped-write-position", vf.SameBits(base.Sample(C*(s+i)+c), D(v2)))
	signal.Read(w, back)
	vf.Assert("striped-write-interleaved-read", vf.SameVal(back[C*i+c], v2))
	signal.ReadStriped(w, str)
	vf.Assert("striped-write-striped-read", vf.SameVal(str[c][i], v2))
}

// C01_ChannelLength: ChannelLength(n, C) counts a partly covered last frame.
func C01_ChannelLength() {
	C := vf.Pick("C", 1, vf.Param("MaxLemmaC", 8))
	n := vf.IntRange("n", 0, vf.Param("MaxLemmaLen", 64))
	vf.Assert("channel-length-is-ceil", signal.ChannelLength(n, C) == ceilDiv(n, C))
}
