package props

import (
	"golang.org/x/exp/constraints"
	"pipelined.dev/signal"
	"verifharness/vf"
)

func fullScale[D constraints.Integer](negative bool) uint64 {
	fs := uint64(1) << (widthOf[D]() - 1)
	if negative {
		return fs
	}
	return fs - 1
}

// c08clip (native floating point, one sample): clipping, zero, the tiny range, sign side. NaN excluded.
func c08clip[S constraints.Float, D constraints.Integer](conv func(*signal.Buffer[S], *signal.Buffer[D]) int) {
	f := vf.Any[S]("f")
	vf.Assume(f == f)
	r, _ := conv2(conv, f, f)
	a := amp(r)
	depth := int(widthOf[D]())
	tiny := S(1)
	for i := 0; i < depth+1; i++ {
		tiny /= 2
	}
	vf.Assert("at-or-above-one-is-highest-code", vf.Implies(f >= 1, a == maxAmp[D]()))
	vf.Assert("at-or-below-minus-one-is-lowest-code", vf.Implies(f <= -1, a == minAmp[D]()))
	vf.Assert("zero-is-zero-code", vf.Implies(f == 0, a == 0))
	vf.Assert("positive-stays-on-its-side", vf.Implies(f > 0, vf.Implies(f < 1, a >= 0)))
	vf.Assert("negative-stays-on-its-side", vf.Implies(f < 0, vf.Implies(f > -1, a <= 0)))
	vf.Assert("tiny-positive", vf.Implies(f > 0, vf.Implies(f < tiny, a == 0 || a == 1)))
	vf.Assert("tiny-negative", vf.Implies(f < 0, vf.Implies(f > -tiny, a == 0 || a == -1)))
}

// c08clipAt (native floating point): clipping holds at every position of a multi-channel buffer whatever the
// other samples are in range (here: fixed values inside (-1,1), so that no other sample clips).
func c08clipAt[S constraints.Float, D constraints.Integer](conv func(*signal.Buffer[S], *signal.Buffer[D]) int) {
	C := vf.Pick("C", 1, vf.Param("MaxC", 2))
	K := vf.Pick("K", 1, vf.Param("MaxK", 2))
	src := signal.Alloc[S](signal.Allocator{Channels: C, Length: K, Capacity: K})
	dst := signal.Alloc[D](signal.Allocator{Channels: C, Length: K, Capacity: K})
	p := vf.Pick("p", 0, C*K-1)
	f := vf.Any[S]("f")
	vf.Assume(f == f)
	for i := 0; i < C*K; i++ {
		if i == p {
			src.SetSample(i, f)
		} else if i%2 == 0 {
			src.SetSample(i, 0.25) // the other samples are ordinary in-range values
		} else {
			src.SetSample(i, -0.5)
		}
	}
	conv(src, dst)
	a := amp(dst.Sample(p))
	vf.Cover("position")
	vf.Assert("at-or-above-one-is-highest-code", vf.Implies(f >= 1, a == maxAmp[D]()))
	vf.Assert("at-or-below-minus-one-is-lowest-code", vf.Implies(f <= -1, a == minAmp[D]()))
	vf.Assert("zero-is-zero-code", vf.Implies(f == 0, a == 0))
}

// c08lin (exact integer encoding, per binade): accuracy to one step and order inside the binade.
func c08lin[S constraints.Float, D constraints.Integer](conv func(*signal.Buffer[S], *signal.Buffer[D]) int) {
	depth := int(widthOf[D]())
	f1 := vf.FloatIn[S]("f1", -(depth + 1), -1)
	f2 := vf.FloatLike(f1, "f2")
	r1, r2 := conv2(conv, f1, f2)
	a1, a2 := amp(r1), amp(r2)
	vf.Cover("binade")
	vf.Assert("within-one-step-of-input-times-full-scale", vf.ScaledDiffLE(f1, fullScale[D](f1 < 0), a1, 1))
	vf.Assert("order-preserved-inside-binade", vf.Implies(f1 <= f2, a1 <= a2))
	vf.Assert("no-wrap", a1 >= minAmp[D]() && a1 <= maxAmp[D]())
}

// c08edges (concrete): the codes at every binade junction are ordered, which glues the per-binade
// order results into global monotonicity on (-1,1); also the ends of the range.
func c08edges[S constraints.Float, D constraints.Integer](conv func(*signal.Buffer[S], *signal.Buffer[D]) int) {
	depth := int(widthOf[D]())
	var z S
	ulpDiv := S(1 << 24)
	if isF64(z) {
		ulpDiv = S(1 << 53)
	}
	x := S(1)
	for E := 0; E >= -(depth + 1); E-- {
		below := x - x/ulpDiv // largest value of the binade below x = 2^E
		lo, hi := conv2(conv, below, x)
		vf.Assert("junction-positive", amp(lo) <= amp(hi))
		nhi, nlo := conv2(conv, -below, -x)
		vf.Assert("junction-negative", amp(nlo) <= amp(nhi))
		x /= 2
	}
	// x is now 2^-(depth+2): the tiny range maps to the zero code on both sides
	t1, t2 := conv2(conv, x, -x)
	vf.Assert("tiny-range-is-zero", amp(t1) == 0 && amp(t2) == 0)
	vf.Cover("edges")
}

func isF64[T constraints.Float](z T) bool {
	one := T(1)
	return one+one/T(1<<30) != one
}

func C08_Clip_FloatAsSigned[S constraints.Float, D constraints.Signed]() {
	c08clip[S, D](signal.FloatAsSigned[S, D])
}
func C08_Clip_FloatAsUnsigned[S constraints.Float, D constraints.Unsigned]() {
	c08clip[S, D](signal.FloatAsUnsigned[S, D])
}
func C08_Lin_FloatAsSigned[S constraints.Float, D constraints.Signed]() {
	c08lin[S, D](signal.FloatAsSigned[S, D])
}
func C08_Lin_FloatAsUnsigned[S constraints.Float, D constraints.Unsigned]() {
	c08lin[S, D](signal.FloatAsUnsigned[S, D])
}
func C08_Edges_FloatAsSigned[S constraints.Float, D constraints.Signed]() {
	c08edges[S, D](signal.FloatAsSigned[S, D])
}
func C08_Edges_FloatAsUnsigned[S constraints.Float, D constraints.Unsigned]() {
	c08edges[S, D](signal.FloatAsUnsigned[S, D])
}

func C08_ClipAt_FloatAsSigned[S constraints.Float, D constraints.Signed]() {
	c08clipAt[S, D](signal.FloatAsSigned[S, D])
}
func C08_ClipAt_FloatAsUnsigned[S constraints.Float, D constraints.Unsigned]() {
	c08clipAt[S, D](signal.FloatAsUnsigned[S, D])
}
