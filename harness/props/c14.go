package props

import (
	"pipelined.dev/signal"
	"verifharness/vf"
)

// C14_Channel: the view of channel c addresses exactly that channel of a parent that is itself a window.
func C14_Channel[T signal.SignalTypes]() {
	C, K := shape()
	base := allocAny[T](C, K, "base")
	if vf.Pick("earlier-view", 0, 1) == 1 {
		// history: a channel view of the larger buffer was taken before the window was cut
		ev := base.Channel(vf.Pick("ec", 0, C-1))
		vf.Assert("earlier-view-shape", ev.Length() == K && ev.Capacity() == K)
	}
	s, e := window("p", K)
	parent := base.Slice(s, e)
	c := vf.Pick("c", 0, C-1)
	ch := parent.Channel(c)
	vf.Assert("one-channel", ch.Channels() == 1)
	vf.Assert("length", ch.Length() == parent.Length() && ch.Length() == e-s)
	vf.Assert("capacity", ch.Capacity() == parent.Capacity() && ch.Capacity() == K-s)
	if e-s == 0 {
		return
	}
	vf.Cover("nonempty")
	i := vf.IntRange("i", 0, e-s-1)
	pos := C*(s+i) + c // position in the whole storage
	vf.Assert("buffer-index", ch.BufferIndex(c, i) == parent.BufferIndex(c, i) && parent.BufferIndex(c, i) == C*i+c)
	// the view has one channel: whatever channel argument a generic caller passes, index i is the parent's (c, i)
	vf.Assert("buffer-index-any-channel-argument", ch.BufferIndex(vf.Pick("arg", 0, C-1), i) == C*i+c)
	vf.Assert("reads-its-channel", vf.SameBits(ch.Sample(i), base.Sample(pos)))
	k := vf.IntRange("k", 0, base.Len()-1)
	before := base.Sample(k)
	v := vf.Any[T]("v")
	ch.SetSample(i, v)
	vf.Assert("write-lands-on-its-sample", vf.SameBits(base.Sample(pos), v))
	vf.Assert("write-touches-nothing-else", vf.Implies(k != pos, vf.SameBits(base.Sample(k), before)))
	vf.Assert("read-back-through-view", vf.SameBits(ch.Sample(i), v))
	vf.Assert("parent-shape", parent.Len() == C*(e-s) && parent.Cap() == C*(K-s))
}

// C14_Follows: the view keeps addressing its parent after the parent's length changed, also for
// unaligned parent lengths (a partly filled last frame counts for every channel's length).
func C14_Follows[T signal.SignalTypes]() {
	C, K := shape()
	if K == 0 {
		return
	}
	base := allocAny[T](C, K, "base")
	s := vf.Pick("s", 0, K-1)
	e := vf.Pick("e", s, K-1) // at least one spare frame behind the window
	parent := base.Slice(s, e)
	c := vf.Pick("c", 0, C-1)
	ch := parent.Channel(c)
	extra := vf.Pick("extra", 1, C) // 1..C single samples: partial and then complete new frame
	for n := 0; n < extra; n++ {
		parent.AppendSample(vf.Any[T]("x"))
	}
	vf.Cover("grown")
	L := parent.Length()
	vf.Assert("parent-length-is-ceil", L == e-s+1)
	vf.Assert("view-length-follows-parent", ch.Length() == L)
	vf.Assert("view-capacity-follows-parent", ch.Capacity() == parent.Capacity())
	// the new frame is addressable through the view when its sample of channel c exists
	if c < extra {
		i := e - s
		pos := C*(s+i) + c
		vf.Assert("view-reads-appended-frame", vf.SameBits(ch.Sample(i), base.Sample(pos)))
		v := vf.Any[T]("v")
		ch.SetSample(i, v)
		vf.Assert("view-writes-appended-frame", vf.SameBits(base.Sample(pos), v))
		vf.Assert("parent-sees-view-write", vf.SameBits(parent.Sample(C*i+c), v))
	}
}

// C14_FollowsGrowth: after a growing Append moved the parent to new storage the view addresses the new storage.
func C14_FollowsGrowth[T signal.SignalTypes]() {
	C := vf.Pick("C", 1, vf.Param("MaxC", 3))
	parent := allocAny[T](C, 1, "p")
	c := vf.Pick("c", 0, C-1)
	ch := parent.Channel(c)
	more := allocAny[T](C, vf.Pick("k", 1, 2), "more")
	parent.Append(more)
	vf.Cover("moved")
	vf.Assert("view-length-follows-parent", ch.Length() == parent.Length())
	vf.Assert("view-capacity-follows-parent", ch.Capacity() == parent.Capacity())
	i := vf.IntRange("i", 0, parent.Length()-1)
	v := vf.Any[T]("v")
	ch.SetSample(i, v)
	vf.Assert("parent-sees-view-write", vf.SameBits(parent.Sample(C*i+c), v))
	vf.Assert("view-reads-parent", vf.SameBits(ch.Sample(i), v))
}
