package props

import (
	"pipelined.dev/signal"
	"verifharness/vf"
)

// C14_Channel: the view of channel c addresses exactly that channel of a parent that is itself a window.
func C14_Channel[T signal.SignalTypes]() {
	C, K := shape()
	base := allocAny[T](C, K, "base")
	s, e := window("p", K)
	parent := base.Slice(s, e)
	c := vf.Pick("c", 0, C-1)
	ch := parent.Channel(c)
	vf.Assert("one-channel", ch.Channels() == 1)
	vf.Assert("length", ch.Length() == parent.Length() && ch.Length() == e-s)
	vf.Assert("capacity", ch.Capacity() == parent.Capacity() && ch.Capacity() == K-s)
	if e-s == 0 {
		return
	}
	vf.Cover("nonempty")
	i := vf.IntRange("i", 0, e-s-1)
	pos := C*(s+i) + c // position in the whole storage
	vf.Assert("buffer-index", ch.BufferIndex(c, i) == parent.BufferIndex(c, i) && parent.BufferIndex(c, i) == C*i+c)
	vf.Assert("reads-its-channel", vf.SameBits(ch.Sample(i), base.Sample(pos)))
	k := vf.IntRange("k", 0, base.Len()-1)
	before := base.Sample(k)
	v := vf.Any[T]("v")
	ch.SetSample(i, v)
	vf.Assert("write-lands-on-its-sample", vf.SameBits(base.Sample(pos), v))
	vf.Assert("write-touches-nothing-else", vf.Implies(k != pos, vf.SameBits(base.Sample(k), before)))
	vf.Assert("read-back-through-view", vf.SameBits(ch.Sample(i), v))
	vf.Assert("parent-shape", parent.Len() == C*(e-s) && parent.Cap() == C*(K-s))
}
