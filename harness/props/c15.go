package props

import (
	"golang.org/x/exp/constraints"
	"pipelined.dev/signal"
	"verifharness/vf"
)

// c15conv: a conversion between buffers of different channel counts panics and modifies nothing.
func c15conv[S, D signal.SignalTypes](conv func(*signal.Buffer[S], *signal.Buffer[D]) int) {
	maxC := vf.Param("MaxC15", 4)
	C1 := vf.Pick("C1", 1, maxC)
	C2 := vf.Pick("C2", 1, maxC)
	if C1 == C2 {
		return
	}
	K := vf.Pick("K", 1, vf.Param("MaxK15", 2))
	src, dst := allocAny[S](C1, K, "src"), allocAny[D](C2, K, "dst")
	k := vf.IntRange("k", 0, dst.Len()-1)
	j := vf.IntRange("j", 0, src.Len()-1)
	before, sbefore := dst.Sample(k), src.Sample(j)
	panicked := vf.Panics(func() { conv(src, dst) })
	vf.Assert("mismatch-panics", panicked)
	vf.Assert("destination-unmodified", vf.SameBits(dst.Sample(k), before))
	vf.Assert("source-unmodified", vf.SameBits(src.Sample(j), sbefore))
	vf.Assert("shapes-unmodified", src.Len() == C1*K && src.Cap() == C1*K && dst.Len() == C2*K && dst.Cap() == C2*K)
}

func C15_FloatAsFloat[S, D constraints.Float]() { c15conv[S, D](signal.FloatAsFloat[S, D]) }
func C15_FloatAsSigned[S constraints.Float, D constraints.Signed]() {
	c15conv[S, D](signal.FloatAsSigned[S, D])
}
func C15_FloatAsUnsigned[S constraints.Float, D constraints.Unsigned]() {
	c15conv[S, D](signal.FloatAsUnsigned[S, D])
}
func C15_SignedAsFloat[S constraints.Signed, D constraints.Float]() {
	c15conv[S, D](signal.SignedAsFloat[S, D])
}
func C15_SignedAsSigned[S, D constraints.Signed]() { c15conv[S, D](signal.SignedAsSigned[S, D]) }
func C15_SignedAsUnsigned[S constraints.Signed, D constraints.Unsigned]() {
	c15conv[S, D](signal.SignedAsUnsigned[S, D])
}
func C15_UnsignedAsFloat[S constraints.Unsigned, D constraints.Float]() {
	c15conv[S, D](signal.UnsignedAsFloat[S, D])
}
func C15_UnsignedAsSigned[S constraints.Unsigned, D constraints.Signed]() {
	c15conv[S, D](signal.UnsignedAsSigned[S, D])
}
func C15_UnsignedAsUnsigned[S, D constraints.Unsigned]() {
	c15conv[S, D](signal.UnsignedAsUnsigned[S, D])
}

// C15_Append: appending a buffer with another channel count.
func C15_Append[T signal.SignalTypes]() {
	maxC := vf.Param("MaxC15", 4)
	C1 := vf.Pick("C1", 1, maxC)
	C2 := vf.Pick("C2", 1, maxC)
	if C1 == C2 {
		return
	}
	K := vf.Pick("K", 1, vf.Param("MaxK15", 2))
	// destination with spare capacity so that an in-place append would be possible
	base := allocAny[T](C1, K+C2, "base")
	dst := base.Slice(0, K)
	src := allocAny[T](C2, K, "src")
	k := vf.IntRange("k", 0, base.Len()-1)
	j := vf.IntRange("j", 0, src.Len()-1)
	before, sbefore := base.Sample(k), src.Sample(j)
	dl, dc := dst.Len(), dst.Cap()
	panicked := vf.Panics(func() { dst.Append(src) })
	vf.Assert("mismatch-panics", panicked)
	vf.Assert("destination-storage-unmodified", vf.SameBits(base.Sample(k), before))
	vf.Assert("source-unmodified", vf.SameBits(src.Sample(j), sbefore))
	vf.Assert("shapes-unmodified", dst.Len() == dl && dst.Cap() == dc && src.Len() == C2*K && src.Cap() == C2*K)
}

// C15_ReadStriped / C15_WriteStriped: number of per-channel slices differs from the channel count.
func C15_ReadStriped[S, D signal.SignalTypes]() {
	C := vf.Pick("C", 1, vf.Param("MaxC15", 4))
	n := vf.Pick("n", 0, vf.Param("MaxC15", 4)+1)
	if n == C {
		return
	}
	K := vf.Pick("K", 1, vf.Param("MaxK15", 2))
	src := allocAny[S](C, K+1, "src").Slice(0, K)
	for i, r := 0, vf.Pick("ragged", 0, C-1); i < r; i++ {
		src.AppendSample(vf.Any[S]("tail")) // a partly filled last frame must not confuse the check
	}
	sl, sc := src.Len(), src.Cap()
	dst := make([][]D, n)
	for i := range dst {
		dst[i] = anySlice[D]("dst", K)
	}
	orig := clone2(dst)
	j := vf.IntRange("j", 0, src.Len()-1)
	sbefore := src.Sample(j)
	panicked := vf.Panics(func() { signal.ReadStriped(src, dst) })
	vf.Assert("mismatch-panics", panicked)
	vf.Assert("buffer-unmodified", vf.SameBits(src.Sample(j), sbefore) && src.Len() == sl && src.Cap() == sc)
	vf.Assert("slice-count-unmodified", len(dst) == n)
	for i := range dst {
		w := vf.IntRange("w", 0, K-1)
		vf.Assert("caller-slices-unmodified", len(dst[i]) == K && vf.SameBits(dst[i][w], orig[i][w]))
	}
}

func C15_WriteStriped[S, D signal.SignalTypes]() {
	C := vf.Pick("C", 1, vf.Param("MaxC15", 4))
	n := vf.Pick("n", 0, vf.Param("MaxC15", 4)+1)
	if n == C {
		return
	}
	K := vf.Pick("K", 1, vf.Param("MaxK15", 2))
	dst := allocAny[D](C, K+1, "dst").Slice(0, K)
	for i, r := 0, vf.Pick("ragged", 0, C-1); i < r; i++ {
		dst.AppendSample(vf.Any[D]("tail"))
	}
	dl, dc := dst.Len(), dst.Cap()
	src := make([][]S, n)
	for i := range src {
		src[i] = anySlice[S]("src", K)
	}
	orig := clone2(src)
	k := vf.IntRange("k", 0, dst.Len()-1)
	before := dst.Sample(k)
	panicked := vf.Panics(func() { signal.WriteStriped(src, dst) })
	vf.Assert("mismatch-panics", panicked)
	vf.Assert("buffer-unmodified", vf.SameBits(dst.Sample(k), before) && dst.Len() == dl && dst.Cap() == dc)
	for i := range src {
		w := vf.IntRange("w", 0, K-1)
		vf.Assert("caller-slices-unmodified", len(src[i]) == K && vf.SameBits(src[i][w], orig[i][w]))
	}
}

// C15_Put: returning a buffer whose total capacity differs from the pool's.
func C15_Put[T signal.SignalTypes]() {
	C := vf.Pick("C", 1, 2)
	K := vf.Pick("K", 0, 2)
	L := vf.Pick("L", 0, K)
	C2 := vf.Pick("C2", 1, 3)
	K2 := vf.Pick("K2", 1, 3)
	if C2*K2 == C*K {
		return
	}
	a := signal.Allocator{Channels: C, Length: L, Capacity: K}
	p := signal.PoolAlloc[T](a)
	whole := allocAny[T](C2, K2, "b")
	b := whole.Slice(0, vf.Pick("filled", 0, K2)) // a rejected buffer may be partially filled
	k := vf.IntRange("k", 0, whole.Len()-1)
	before := whole.Sample(k)
	bl := b.Len()
	panicked := vf.Panics(func() { p.Put(b) })
	vf.Assert("mismatch-panics", panicked)
	vf.Assert("buffer-unmodified", vf.SameBits(whole.Sample(k), before) && b.Len() == bl && b.Cap() == C2*K2)
	// the pool did not take it: whatever Get returns is not that buffer and has the pool's shape
	g := p.Get()
	vf.Assert("pool-unmodified", g != b && g.Channels() == C && g.Len() == C*L && g.Cap() == C*K)
}
