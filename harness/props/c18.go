package props

import (
	"golang.org/x/exp/constraints"
	"pipelined.dev/signal"
	"verifharness/vf"
)

// C18_Ops: steady-state operations on a window of a larger buffer perform no heap allocation.
func C18_Ops[T signal.SignalTypes]() {
	C, K := shape()
	base := allocAny[T](C, K, "base")
	s, e := window("w", K)
	w := base.Slice(s, e)
	x := vf.Any[T]("x")
	n := 0
	switch vf.Pick("op", 0, 7) {
	case 0:
		vf.Cover("get-set")
		sink := 0
		n = vf.Allocs(func() {
			if w.Len() > 0 {
				w.SetSample(w.Len()-1, x)
				x = w.Sample(0)
			}
			sink += w.Len() + w.Cap() + w.Length() + w.Capacity() + w.Channels() + int(w.BitDepth()) + w.BufferIndex(0, 1)
		})
	case 1:
		vf.Cover("append-sample")
		n = vf.Allocs(func() {
			w.AppendSample(x)
			w.AppendSample(x)
		})
	case 2:
		vf.Cover("read-write")
		in := anySlice[T]("in", vf.Pick("n", 0, C*K+1))
		n = vf.Allocs(func() {
			signal.Write(in, w)
			signal.Read(w, in)
		})
	case 3:
		vf.Cover("striped")
		str := make([][]T, C)
		for c := range str {
			str[c] = anySlice[T]("str", vf.Pick("sl", 0, K))
		}
		n = vf.Allocs(func() {
			signal.WriteStriped(str, w)
			signal.ReadStriped(w, str)
		})
	case 4:
		ks := vf.Pick("ks", 0, 2)
		src := allocAny[T](C, ks, "src").Slice(0, vf.Pick("kl", 0, ks))
		// unaligned operands (partly filled last frames) are appended within capacity as well
		for i, n := 0, vf.Pick("du", 0, C-1); i < n; i++ {
			w.AppendSample(x)
		}
		for i, n := 0, vf.Pick("su", 0, C-1); i < n; i++ {
			src.AppendSample(x)
		}
		if w.Cap() < w.Len()+src.Len() {
			return // appending within capacity only
		}
		vf.Cover("append-within-capacity")
		n = vf.Allocs(func() { w.Append(src) })
	case 5:
		vf.Cover("channel-view")
		c := vf.Pick("c", 0, C-1)
		sink := 0
		n = vf.Allocs(func() {
			ch := w.Channel(c)
			if ch.Length() > 0 {
				ch.SetSample(0, x)
				x = ch.Sample(ch.Length() - 1)
			}
			sink += ch.Channels() + ch.Capacity() + ch.BufferIndex(c, 0)
		})
	case 6:
		vf.Cover("slice")
		var v *signal.Buffer[T]
		n = vf.Allocs(func() { v = w.Slice(0, e-s) })
		vf.Assert("slice-allocates-at-most-the-header", n <= 1)
		_ = v
		return
	default:
		vf.Cover("pool-cycle")
		p := signal.PoolAlloc[T](signal.Allocator{Channels: C, Length: e - s, Capacity: K})
		q := p         // a copy of the allocator value taken before its first use shares the pool
		q.Put(p.Get()) // warm the pool: steady state starts here
		n = vf.Allocs(func() {
			b := p.Get() // get through one copy, put through the other: they are the same pool
			b.AppendSample(x)
			q.Put(b)
		})
	}
	vf.Assert("no-allocation", n == 0)
}

func c18conv[S, D signal.SignalTypes](conv func(*signal.Buffer[S], *signal.Buffer[D]) int) {
	C := vf.Pick("C", 1, vf.Param("MaxC", 2))
	KS := vf.Pick("KS", 0, vf.Param("MaxK", 2))
	KD := vf.Pick("KD", 0, vf.Param("MaxK", 2))
	src, dst := allocAny[S](C, KS, "src"), allocAny[D](C, KD, "dst")
	n := vf.Allocs(func() { conv(src, dst) })
	vf.Assert("no-allocation", n == 0)
}

// c18big: the same on long buffers (size-dependent code paths); samples are zero except one symbolic value.
func c18big[S, D signal.SignalTypes](conv func(*signal.Buffer[S], *signal.Buffer[D]) int) {
	C := vf.Pick("C", 1, 2)
	n := vf.Param("BigFrames", 300)
	L := vf.Pick("L", 0, 2)
	frames := []int{255 / C, 256/C + 1, n}
	K := frames[L]
	src := signal.Alloc[S](signal.Allocator{Channels: C, Length: K, Capacity: K})
	dst := signal.Alloc[D](signal.Allocator{Channels: C, Length: K, Capacity: K})
	src.SetSample(0, vf.Any[S]("x"))
	got := vf.Allocs(func() { conv(src, dst) })
	vf.Cover("big")
	vf.Assert("no-allocation", got == 0)
}

// C18_BigIO: interleaved and striped reads and writes, single-sample appends on long buffers.
func C18_BigIO[T signal.SignalTypes]() {
	C := vf.Pick("C", 1, 2)
	K := vf.Param("BigFrames", 300)
	b := signal.Alloc[T](signal.Allocator{Channels: C, Length: K - 1, Capacity: K})
	in := make([]T, C*K)
	in[0] = vf.Any[T]("x")
	str := make([][]T, C)
	for c := range str {
		str[c] = make([]T, K)
	}
	p := signal.PoolAlloc[T](signal.Allocator{Channels: C, Length: K / 2, Capacity: K})
	p.Put(p.Get()) // warm
	got := vf.Allocs(func() {
		pb := p.Get()
		pb.AppendSample(in[0])
		p.Put(pb)
		signal.Write(in, b)
		signal.Read(b, in)
		signal.WriteStriped(str, b)
		signal.ReadStriped(b, str)
		b.AppendSample(in[0])
		b.Channel(C-1).SetSample(K-2, in[0])
	})
	vf.Cover("big")
	vf.Assert("no-allocation", got == 0)
}

func C18_Big_FloatAsFloat[S, D constraints.Float]() { c18big[S, D](signal.FloatAsFloat[S, D]) }
func C18_Big_FloatAsSigned[S constraints.Float, D constraints.Signed]() {
	c18big[S, D](signal.FloatAsSigned[S, D])
}
func C18_Big_FloatAsUnsigned[S constraints.Float, D constraints.Unsigned]() {
	c18big[S, D](signal.FloatAsUnsigned[S, D])
}
func C18_Big_SignedAsFloat[S constraints.Signed, D constraints.Float]() {
	c18big[S, D](signal.SignedAsFloat[S, D])
}
func C18_Big_SignedAsSigned[S, D constraints.Signed]() { c18big[S, D](signal.SignedAsSigned[S, D]) }
func C18_Big_SignedAsUnsigned[S constraints.Signed, D constraints.Unsigned]() {
	c18big[S, D](signal.SignedAsUnsigned[S, D])
}
func C18_Big_UnsignedAsFloat[S constraints.Unsigned, D constraints.Float]() {
	c18big[S, D](signal.UnsignedAsFloat[S, D])
}
func C18_Big_UnsignedAsSigned[S constraints.Unsigned, D constraints.Signed]() {
	c18big[S, D](signal.UnsignedAsSigned[S, D])
}
func C18_Big_UnsignedAsUnsigned[S, D constraints.Unsigned]() {
	c18big[S, D](signal.UnsignedAsUnsigned[S, D])
}

func C18_FloatAsFloat[S, D constraints.Float]() { c18conv[S, D](signal.FloatAsFloat[S, D]) }
func C18_FloatAsSigned[S constraints.Float, D constraints.Signed]() {
	c18conv[S, D](signal.FloatAsSigned[S, D])
}
func C18_FloatAsUnsigned[S constraints.Float, D constraints.Unsigned]() {
	c18conv[S, D](signal.FloatAsUnsigned[S, D])
}
func C18_SignedAsFloat[S constraints.Signed, D constraints.Float]() {
	c18conv[S, D](signal.SignedAsFloat[S, D])
}
func C18_SignedAsSigned[S, D constraints.Signed]() { c18conv[S, D](signal.SignedAsSigned[S, D]) }
func C18_SignedAsUnsigned[S constraints.Signed, D constraints.Unsigned]() {
	c18conv[S, D](signal.SignedAsUnsigned[S, D])
}
func C18_UnsignedAsFloat[S constraints.Unsigned, D constraints.Float]() {
	c18conv[S, D](signal.UnsignedAsFloat[S, D])
}
func C18_UnsignedAsSigned[S constraints.Unsigned, D constraints.Signed]() {
	c18conv[S, D](signal.UnsignedAsSigned[S, D])
}
func C18_UnsignedAsUnsigned[S, D constraints.Unsigned]() {
	c18conv[S, D](signal.UnsignedAsUnsigned[S, D])
}
