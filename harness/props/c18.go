package props

import (
	"golang.org/x/exp/constraints"
	"pipelined.dev/signal"
	"verifharness/vf"
)

// C18_Ops: steady-state operations on a window of a larger buffer perform no heap allocation.
func C18_Ops[T signal.SignalTypes]() {
	C, K := shape()
	base := allocAny[T](C, K, "base")
	s, e := window("w", K)
	w := base.Slice(s, e)
	in := anySlice[T]("in", vf.Pick("n", 0, C*K+1))
	str := make([][]T, C)
	for c := range str {
		str[c] = anySlice[T]("str", vf.Pick("sl", 0, K))
	}
	x := vf.Any[T]("x")
	n := 0
	switch vf.Pick("op", 0, 7) {
	case 0:
		vf.Cover("get-set")
		sink := 0
		n = vf.Allocs(func() {
			if w.Len() > 0 {
				w.SetSample(w.Len()-1, x)
				x = w.Sample(0)
			}
			sink += w.Len() + w.Cap() + w.Length() + w.Capacity() + w.Channels() + int(w.BitDepth()) + w.BufferIndex(0, 1)
		})
	case 1:
		vf.Cover("append-sample")
		n = vf.Allocs(func() {
			w.AppendSample(x)
			w.AppendSample(x)
		})
	case 2:
		vf.Cover("read-write")
		n = vf.Allocs(func() {
			signal.Write(in, w)
			signal.Read(w, in)
		})
	case 3:
		vf.Cover("striped")
		n = vf.Allocs(func() {
			signal.WriteStriped(str, w)
			signal.ReadStriped(w, str)
		})
	case 4:
		src := allocAny[T](C, vf.Pick("ks", 0, 2), "src")
		if w.Cap() < w.Len()+src.Len() {
			return // appending within capacity only
		}
		vf.Cover("append-within-capacity")
		n = vf.Allocs(func() { w.Append(src) })
	case 5:
		vf.Cover("channel-view")
		c := vf.Pick("c", 0, C-1)
		sink := 0
		n = vf.Allocs(func() {
			ch := w.Channel(c)
			if ch.Length() > 0 {
				ch.SetSample(0, x)
				x = ch.Sample(ch.Length() - 1)
			}
			sink += ch.Channels() + ch.Capacity() + ch.BufferIndex(c, 0)
		})
	case 6:
		vf.Cover("slice")
		var v *signal.Buffer[T]
		n = vf.Allocs(func() { v = w.Slice(0, e-s) })
		vf.Assert("slice-allocates-at-most-the-header", n <= 1)
		_ = v
		return
	default:
		vf.Cover("pool-cycle")
		p := signal.PoolAlloc[T](signal.Allocator{Channels: C, Length: e - s, Capacity: K})
		p.Put(p.Get()) // warm the pool: steady state starts here
		n = vf.Allocs(func() {
			b := p.Get()
			b.AppendSample(x)
			p.Put(b)
		})
	}
	vf.Assert("no-allocation", n == 0)
}

func c18conv[S, D signal.SignalTypes](conv func(*signal.Buffer[S], *signal.Buffer[D]) int) {
	C := vf.Pick("C", 1, vf.Param("MaxC", 2))
	KS := vf.Pick("KS", 0, vf.Param("MaxK", 2))
	KD := vf.Pick("KD", 0, vf.Param("MaxK", 2))
	src, dst := allocAny[S](C, KS, "src"), allocAny[D](C, KD, "dst")
	n := vf.Allocs(func() { conv(src, dst) })
	vf.Assert("no-allocation", n == 0)
}

func C18_FloatAsFloat[S, D constraints.Float]() { c18conv[S, D](signal.FloatAsFloat[S, D]) }
func C18_FloatAsSigned[S constraints.Float, D constraints.Signed]() {
	c18conv[S, D](signal.FloatAsSigned[S, D])
}
func C18_FloatAsUnsigned[S constraints.Float, D constraints.Unsigned]() {
	c18conv[S, D](signal.FloatAsUnsigned[S, D])
}
func C18_SignedAsFloat[S constraints.Signed, D constraints.Float]() {
	c18conv[S, D](signal.SignedAsFloat[S, D])
}
func C18_SignedAsSigned[S, D constraints.Signed]() { c18conv[S, D](signal.SignedAsSigned[S, D]) }
func C18_SignedAsUnsigned[S constraints.Signed, D constraints.Unsigned]() {
	c18conv[S, D](signal.SignedAsUnsigned[S, D])
}
func C18_UnsignedAsFloat[S constraints.Unsigned, D constraints.Float]() {
	c18conv[S, D](signal.UnsignedAsFloat[S, D])
}
func C18_UnsignedAsSigned[S constraints.Unsigned, D constraints.Signed]() {
	c18conv[S, D](signal.UnsignedAsSigned[S, D])
}
func C18_UnsignedAsUnsigned[S, D constraints.Unsigned]() {
	c18conv[S, D](signal.UnsignedAsUnsigned[S, D])
}
