package props

import (
	"pipelined.dev/signal"
	"verifharness/vf"
)

// world pairs every live view with its reference model: a plain Go slice over the model's own storage.
type world[T signal.SignalTypes] struct {
	C     int
	views []*signal.Buffer[T]
	model [][]T
}

// newView makes a view of frames [s,e) of base plus `extra` single samples, and the same over the model storage.
func (w *world[T]) add(base *signal.Buffer[T], mbase []T, name string, K int) {
	s, e := window(name, K)
	v := base.Slice(s, e)
	m := mbase[w.C*s : w.C*e]
	w.views = append(w.views, v)
	w.model = append(w.model, m)
}

// sync: single-sample appends to make lengths unaligned (applied to both worlds; part of the state construction).
func (w *world[T]) unalign(i int, name string) {
	n := vf.Pick(name+".extra", 0, w.C-1)
	for j := 0; j < n; j++ {
		x := vf.Any[T](name + ".x")
		w.views[i].AppendSample(x)
		if len(w.model[i]) < cap(w.model[i]) {
			w.model[i] = append(w.model[i], x)
		}
	}
}

func trim[T any](s []T, C int) []T {
	c := cap(s) - cap(s)%C
	return s[:len(s):c]
}

// step applies one operation, chosen and parameterised arbitrarily, to both worlds and compares the panic outcome.
func (w *world[T]) step(tag string) {
	nv := len(w.views)
	op := vf.Pick(tag+".op", 0, 4)
	i := vf.Pick(tag+".i", 0, nv-1)
	v, m := w.views[i], w.model[i]
	switch op {
	case 0: // Slice
		vf.Cover("op-slice")
		a, b := vf.Any[int](tag+".a"), vf.Any[int](tag+".b")
		vf.Assume(a >= -1 && a <= cap(m)/w.C+1) // near the valid range (the far range is C02's subject)
		vf.Assume(b >= -1 && b <= cap(m)/w.C+1)
		a, b = vf.Concretize(a), vf.Concretize(b)
		var nvw *signal.Buffer[T]
		var nm []T
		rp := vf.Panics(func() { nvw = v.Slice(a, b) })
		mp := vf.Panics(func() { nm = m[w.C*a : w.C*b] })
		vf.Assert("slice-same-panic", rp == mp)
		if !rp && !mp {
			w.views = append(w.views, nvw)
			w.model = append(w.model, nm)
		}
	case 1: // AppendSample
		vf.Cover("op-append-sample")
		x := vf.Any[T](tag + ".x")
		v.AppendSample(x)
		if len(m) < cap(m) {
			w.model[i] = append(m, x)
		}
	case 2: // Append(vi <- vj), frame-aligned operands only
		j := vf.Pick(tag+".j", 0, nv-1)
		if len(m)%w.C != 0 || len(w.model[j])%w.C != 0 {
			return
		}
		// (a source overlapping the destination's spare capacity is included here: the reference model is
		// Go's append, which has copy semantics; C03 excludes that case, C12 does not)
		if j != i && overlapsSpare(m, w.model[j]) {
			vf.Cover("op-append-overlapping-source")
		}
		vf.Cover("op-append")
		src := append([]T(nil), w.model[j]...) // Go's append has copy semantics for overlapping operands
		v.Append(w.views[j])
		w.model[i] = trim(append(m, src...), w.C)
	case 3: // SetSample
		vf.Cover("op-set-sample")
		k := vf.Any[int](tag + ".k")
		vf.Assume(k >= -1 && k <= len(m))
		x := vf.Any[T](tag + ".x")
		rp := vf.Panics(func() { v.SetSample(k, x) })
		mp := vf.Panics(func() { m[k] = x })
		vf.Assert("set-same-panic", rp == mp)
	default: // Write
		vf.Cover("op-write")
		n := vf.Pick(tag+".n", 0, len(m)+1)
		src := anySlice[T](tag+".src", n)
		signal.Write(src, v)
		copy(m, src)
	}
}

// overlapsSpare reports whether src's readable window shares storage with dst's spare capacity.
func overlapsSpare[T any](dst, src []T) bool {
	if cap(dst) == len(dst) || len(src) == 0 {
		return false
	}
	spare := dst[len(dst):cap(dst)]
	for a := range spare {
		for b := range src {
			if &spare[a] == &src[b] {
				return true
			}
		}
	}
	return false
}

// compare: every view has the model's shape and reads the model's value at an arbitrary index of its full capacity.
func (w *world[T]) compare(what string) {
	for i := range w.views {
		v, m := w.views[i], w.model[i]
		vf.Assert(what+":len", v.Len() == len(m))
		vf.Assert(what+":cap", v.Cap() == cap(m))
		if v.Cap() == cap(m) && cap(m) > 0 && cap(m)%w.C == 0 {
			full := v.Slice(0, v.Capacity())
			mf := m[:cap(m)]
			k := vf.IntRange("k", 0, cap(m)-1)
			vf.Assert(what+":contents", vf.SameBits(full.Sample(k), mf[k]))
		}
	}
}

func newWorld[T signal.SignalTypes]() *world[T] {
	C := vf.Pick("C", 1, vf.Param("MaxC", 2))
	K := vf.Pick("K", 0, vf.Param("MaxK", 2))
	KB := vf.Pick("KB", 0, vf.Param("MaxKB", 1))
	w := &world[T]{C: C}
	baseA := allocAny[T](C, K, "A")
	baseB := allocAny[T](C, KB, "B")
	mA, mB := contents(baseA), contents(baseB)
	// the full views are live views too
	w.views = append(w.views, baseA)
	w.model = append(w.model, mA)
	for n := 0; n < vf.Param("Views", 2); n++ {
		w.add(baseA, mA, "v", K)
	}
	w.add(baseB, mB, "b", KB)
	for i := 1; i < len(w.views); i++ {
		w.unalign(i, "u")
	}
	return w
}

// C12_Step: one operation from an arbitrary reachable multi-view state (inductive step).
func C12_Step[T signal.SignalTypes]() {
	w := newWorld[T]()
	w.step("s1")
	w.compare("after-step")
}

// C12_Chain: a bounded history of operations chosen arbitrarily at every step (sanity unrolling).
func C12_Chain[T signal.SignalTypes]() {
	w := newWorld[T]()
	depth := vf.Param("Depth", 2)
	tags := []string{"s0", "s1", "s2", "s3"}
	for d := 0; d < depth && d < len(tags); d++ {
		w.step(tags[d])
	}
	w.compare("after-chain")
}

// C12_AppendAliased: Append between two arbitrary windows of one storage (overlap of any kind, including a source
// that covers the destination's spare capacity, and the destination itself), compared with Go's append on the model.
func C12_AppendAliased[T signal.SignalTypes]() {
	C := vf.Pick("C", 1, vf.Param("MaxC", 2))
	K := vf.Pick("K", 0, vf.Param("MaxK", 3))
	w := &world[T]{C: C}
	base := allocAny[T](C, K, "A")
	mbase := contents(base)
	w.views = append(w.views, base)
	w.model = append(w.model, mbase)
	w.add(base, mbase, "d", K)
	w.add(base, mbase, "s", K)
	dst, src := 1, 2
	if vf.Pick("self", 0, 1) == 1 {
		src = 1
	}
	if overlapsSpare(w.model[dst], w.model[src]) {
		vf.Cover("source-overlaps-spare-capacity")
	}
	data := append([]T(nil), w.model[src]...)
	w.views[dst].Append(w.views[src])
	w.model[dst] = trim(append(w.model[dst], data...), C)
	w.compare("after-aliased-append")
}
