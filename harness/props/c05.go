package props

import (
	"golang.org/x/exp/constraints"
	"pipelined.dev/signal"
	"verifharness/vf"
)

func imin(a, b int) int {
	if a < b {
		return a
	}
	return b
}

// c05 is the common harness for the nine conversions: position-wise on the common prefix, frame conditions.
func c05[S, D signal.SignalTypes](conv func(*signal.Buffer[S], *signal.Buffer[D]) int) {
	C := vf.Pick("C", 1, vf.Param("MaxC", 2))
	KS := vf.Pick("KS", 0, vf.Param("MaxK", 2))
	KD := vf.Pick("KD", 0, vf.Param("MaxK", 2))
	sb, db := allocAny[S](C, KS, "sb"), allocAny[D](C, KD, "db")
	ss, se := window("s", KS)
	ds, de := window("d", KD)
	src, dst := sb.Slice(ss, se), db.Slice(ds, de)
	if vf.Param("Unaligned", 1) == 1 {
		es := vf.Pick("es", 0, C-1)
		for i := 0; i < es; i++ {
			src.AppendSample(vf.Any[S]("pad"))
		}
		ed := vf.Pick("ed", 0, C-1)
		for i := 0; i < ed; i++ {
			dst.AppendSample(vf.Any[D]("pad"))
		}
	}
	sl, scap, dl, dcap := src.Len(), src.Cap(), dst.Len(), dst.Cap()
	n := imin(sl, dl)
	wantRet := imin(ceilDiv(sl, C), ceilDiv(dl, C))
	in := contents(src)
	var k, j int
	var before D
	var sbefore S
	if db.Len() > 0 {
		k = vf.Pick("k", 0, db.Len()-1) // case split: keeps the reference run below structurally identical to the real one
		before = db.Sample(k)
	}
	if sb.Len() > 0 {
		j = vf.IntRange("j", 0, sb.Len()-1)
		sbefore = sb.Sample(j)
	}
	got := conv(src, dst)
	vf.Assert("returns-min-length", got == wantRet)
	vf.Assert("shapes-unchanged", src.Len() == sl && src.Cap() == scap && dst.Len() == dl && dst.Cap() == dcap)
	if sb.Len() > 0 {
		vf.Assert("source-unchanged", vf.SameBits(sb.Sample(j), sbefore))
	}
	if db.Len() > 0 {
		p := k - C*ds
		if p >= 0 && p < n {
			vf.Cover("converted")
			// the same function on a fresh 1x1 pair holding only sample p
			one := signal.Alloc[S](signal.Allocator{Channels: 1, Length: 1, Capacity: 1})
			oneD := signal.Alloc[D](signal.Allocator{Channels: 1, Length: 1, Capacity: 1})
			one.SetSample(0, in[p])
			conv(one, oneD)
			vf.Assert("position-wise", vf.SameBits(db.Sample(k), oneD.Sample(0)))
		} else {
			vf.Cover("untouched")
			vf.Assert("rest-untouched", vf.SameBits(db.Sample(k), before))
		}
	}
}

// c05big: on long buffers (size-dependent code paths) a sample still converts exactly as it does alone.
func c05big[S, D signal.SignalTypes](conv func(*signal.Buffer[S], *signal.Buffer[D]) int) {
	C := vf.Pick("C", 1, 2)
	N := vf.Param("BigFrames", 600) / C
	src := signal.Alloc[S](signal.Allocator{Channels: C, Length: N, Capacity: N})
	dst := signal.Alloc[D](signal.Allocator{Channels: C, Length: N, Capacity: N})
	pos := []int{0, C * N / 2, C*N - 1}[vf.Pick("at", 0, 2)]
	x := vf.Any[S]("x")
	src.SetSample(pos, x)
	dst.SetSample(pos, 1) // stale
	vf.Assert("returns-frames", conv(src, dst) == N)
	one := signal.Alloc[S](signal.Allocator{Channels: 1, Length: 1, Capacity: 1})
	oneD := signal.Alloc[D](signal.Allocator{Channels: 1, Length: 1, Capacity: 1})
	one.SetSample(0, x)
	conv(one, oneD)
	vf.Cover("big")
	vf.Assert("size-independent", vf.SameBits(dst.Sample(pos), oneD.Sample(0)))
}

func C05_Big_FloatAsFloat[S, D constraints.Float]() { c05big[S, D](signal.FloatAsFloat[S, D]) }
func C05_Big_FloatAsSigned[S constraints.Float, D constraints.Signed]() {
	c05big[S, D](signal.FloatAsSigned[S, D])
}
func C05_Big_FloatAsUnsigned[S constraints.Float, D constraints.Unsigned]() {
	c05big[S, D](signal.FloatAsUnsigned[S, D])
}
func C05_Big_SignedAsFloat[S constraints.Signed, D constraints.Float]() {
	c05big[S, D](signal.SignedAsFloat[S, D])
}
func C05_Big_SignedAsSigned[S, D constraints.Signed]() { c05big[S, D](signal.SignedAsSigned[S, D]) }
func C05_Big_SignedAsUnsigned[S constraints.Signed, D constraints.Unsigned]() {
	c05big[S, D](signal.SignedAsUnsigned[S, D])
}
func C05_Big_UnsignedAsFloat[S constraints.Unsigned, D constraints.Float]() {
	c05big[S, D](signal.UnsignedAsFloat[S, D])
}
func C05_Big_UnsignedAsSigned[S constraints.Unsigned, D constraints.Signed]() {
	c05big[S, D](signal.UnsignedAsSigned[S, D])
}
func C05_Big_UnsignedAsUnsigned[S, D constraints.Unsigned]() {
	c05big[S, D](signal.UnsignedAsUnsigned[S, D])
}

func C05_FloatAsFloat[S, D constraints.Float]() { c05[S, D](signal.FloatAsFloat[S, D]) }
func C05_FloatAsSigned[S constraints.Float, D constraints.Signed]() {
	c05[S, D](signal.FloatAsSigned[S, D])
}
func C05_FloatAsUnsigned[S constraints.Float, D constraints.Unsigned]() {
	c05[S, D](signal.FloatAsUnsigned[S, D])
}
func C05_SignedAsFloat[S constraints.Signed, D constraints.Float]() {
	c05[S, D](signal.SignedAsFloat[S, D])
}
func C05_SignedAsSigned[S, D constraints.Signed]() { c05[S, D](signal.SignedAsSigned[S, D]) }
func C05_SignedAsUnsigned[S constraints.Signed, D constraints.Unsigned]() {
	c05[S, D](signal.SignedAsUnsigned[S, D])
}
func C05_UnsignedAsFloat[S constraints.Unsigned, D constraints.Float]() {
	c05[S, D](signal.UnsignedAsFloat[S, D])
}
func C05_UnsignedAsSigned[S constraints.Unsigned, D constraints.Signed]() {
	c05[S, D](signal.UnsignedAsSigned[S, D])
}
func C05_UnsignedAsUnsigned[S, D constraints.Unsigned]() { c05[S, D](signal.UnsignedAsUnsigned[S, D]) }

// C05_FloatAsFloatValue: floating-to-floating preserves every value (Go conversion; no clipping, NaN stays NaN).
func C05_FloatAsFloatValue[S, D constraints.Float]() {
	src := signal.Alloc[S](signal.Allocator{Channels: 1, Length: 1, Capacity: 1})
	dst := signal.Alloc[D](signal.Allocator{Channels: 1, Length: 1, Capacity: 1})
	v := vf.Any[S]("v")
	src.SetSample(0, v)
	dst.SetSample(0, vf.Any[D]("old"))
	vf.Assert("one-frame", signal.FloatAsFloat(src, dst) == 1)
	r := dst.Sample(0)
	vf.Assert("value-preserved", vf.SameBits(r, D(v)))
	vf.Assert("nan-stays-nan", (v != v) == (r != r))
	vf.Assert("widening-or-same-is-exact", vf.Implies(S(D(v)) == v, float64(r) == float64(v)))
	vf.Assert("no-clipping-above-1", vf.Implies(v >= 2, r >= 2))
	vf.Assert("no-clipping-below-minus-1", vf.Implies(v <= -2, r <= -2))
	vf.Assert("infinities-kept", vf.Implies(float64(v) > 1e300, float64(r) > 1e38) && vf.Implies(float64(v) < -1e300, float64(r) < -1e38))
}
