package props

import (
	"golang.org/x/exp/constraints"
	"pipelined.dev/signal"
	"verifharness/vf"
)

// readResult is what one reader observed.
type readResult[T signal.SignalTypes] struct {
	sample        T
	shape         int
	flat          []T
	striped       [][]T
	n1, n2        int
	sub           T
	subLen        int
	chSample      T
	chShape       int
	bufferIndices int
}

// readAll runs every read-only entry point on the shared buffer with the given (pre-drawn) arguments.
func readAll[T signal.SignalTypes](w *signal.Buffer[T], C, L, full, i, a, b, c int, r *readResult[T]) {
	r.shape = w.Len() + 3*w.Cap() + 5*w.Length() + 7*w.Capacity() + 11*w.Channels() + 13*int(w.BitDepth())
	r.bufferIndices = w.BufferIndex(c, i)
	r.flat = make([]T, C*L+1)
	r.n1 = signal.Read(w, r.flat)
	r.striped = make([][]T, C)
	for ch := range r.striped {
		r.striped[ch] = make([]T, full) // striped reads cover complete frames only
	}
	r.n2 = signal.ReadStriped(w, r.striped)
	if full > 0 {
		r.sample = w.Sample(w.BufferIndex(c, i))
		v := w.Channel(c)
		r.chSample = v.Sample(i)
		r.chShape = v.Length() + 3*v.Capacity() + 5*v.Channels() + 7*v.BufferIndex(c, i)
	}
	s := w.Slice(a, b)
	r.subLen = s.Len() + 3*s.Cap()
	if s.Len() > 0 {
		r.sub = s.Sample(0)
	}
}

func sameResult[T signal.SignalTypes](x, y *readResult[T], k, kc, ki int) bool {
	ok := x.shape == y.shape && x.bufferIndices == y.bufferIndices && x.n1 == y.n1 && x.n2 == y.n2 &&
		x.subLen == y.subLen && x.chShape == y.chShape
	ok = ok && vf.SameBits(x.sample, y.sample) && vf.SameBits(x.sub, y.sub) && vf.SameBits(x.chSample, y.chSample)
	ok = ok && vf.SameBits(x.flat[k], y.flat[k])
	if len(x.striped[kc]) > 0 {
		ok = ok && vf.SameBits(x.striped[kc][ki], y.striped[kc][ki])
	}
	return ok
}

// C19_Readers: R goroutines run every read-only entry point on one shared window at once.
func C19_Readers[T signal.SignalTypes]() {
	C := vf.Pick("C", 1, vf.Param("MaxC", 2))
	K := vf.Pick("K", 1, vf.Param("MaxK", 2))
	base := allocAny[T](C, K, "base")
	s, e := window("w", K)
	w := base.Slice(s, e)
	L, full := e-s, e-s
	if e < K {
		// a partly filled last frame (unaligned length) is part of the shared state too
		for i, n := 0, vf.Pick("partial", 0, C-1); i < n; i++ {
			w.AppendSample(vf.Any[T]("tail"))
			L = e - s + 1
		}
	}
	R := vf.Param("Readers", 2)
	// per-reader arguments, drawn before the goroutines start
	is, as, bs, cs := make([]int, R), make([]int, R), make([]int, R), make([]int, R)
	for r := 0; r < R; r++ {
		if full > 0 {
			is[r] = vf.Pick("i", 0, full-1)
		}
		cs[r] = vf.Pick("c", 0, C-1)
		as[r] = vf.Pick("a", 0, L)
		bs[r] = vf.Pick("b", as[r], K-s)
	}
	k := vf.IntRange("k", 0, base.Len()-1)
	before := base.Sample(k)
	res := make([]readResult[T], R)
	fs := make([]func(), R)
	for r := 0; r < R; r++ {
		r := r
		fs[r] = func() { readAll(w, C, L, full, is[r], as[r], bs[r], cs[r], &res[r]) }
	}
	vf.Par(fs...)
	vf.Cover("joined")
	vf.Assert("readers-leave-storage-untouched", vf.SameBits(base.Sample(k), before))
	kf := vf.IntRange("kf", 0, C*L)
	kc := vf.Pick("kc", 0, C-1)
	ki := 0
	if full > 0 {
		ki = vf.IntRange("ki", 0, full-1)
	}
	for r := 0; r < R; r++ {
		var seq readResult[T]
		readAll(w, C, L, full, is[r], as[r], bs[r], cs[r], &seq)
		vf.Assert("same-as-sequential", sameResult(&res[r], &seq, kf, kc, ki))
	}
}

// C19_Writers: two goroutines write through slices covering disjoint frame ranges, a third reads its own range.
func C19_Writers[T signal.SignalTypes]() {
	C := vf.Pick("C", 1, vf.Param("MaxC", 2))
	K := vf.Pick("K", 1, vf.Param("MaxK", 3))
	base := allocAny[T](C, K, "base")
	a := vf.Pick("a", 0, K)
	b := vf.Pick("b", a, K)
	w1, w2, w3 := base.Slice(0, a), base.Slice(a, b), base.Slice(b, K)
	old := contents(base)
	in1 := anySlice[T]("in1", C*K) // a fixed-size chunk: the window clips it
	// per-channel input of the striped writer: ragged (nil, short) or full
	in2 := make([][]T, C)
	longest := 0
	for c := range in2 {
		l := vf.Pick("in2.len", -1, K) // possibly longer than the window: the window clips it
		if l >= 0 {
			in2[c] = anySlice[T]("in2", l)
		}
		if l > longest {
			longest = l
		}
	}
	x := vf.Any[T]("x")
	mode := vf.Pick("mode", 0, 1)
	out3 := make([]T, w3.Len())
	n3 := 0
	vf.Par(
		func() {
			if mode == 0 {
				signal.Write(in1, w1)
			} else {
				for i := 0; i < w1.Len(); i++ {
					w1.SetSample(i, x)
				}
			}
		},
		func() {
			if mode == 0 {
				signal.WriteStriped(in2, w2)
			} else {
				for c := 0; c < C; c++ {
					ch := w2.Channel(c)
					for i := 0; i < ch.Length(); i++ {
						ch.SetSample(i, x)
					}
				}
			}
		},
		func() { n3 = signal.Read(w3, out3) },
	)
	vf.Cover("joined")
	k := vf.IntRange("k", 0, base.Len()-1)
	got := base.Sample(k)
	// the sequential result
	var want T
	switch {
	case k < C*a:
		want = vf.Ite(mode == 0, in1[vf.Ite(k < C*a, k, 0)], x)
	case k < C*b:
		p := k - C*a
		c := vf.Concretize(p % C)
		i := vf.Concretize(p / C)
		if mode == 1 {
			want = x
		} else if i >= longest {
			want = old[k] // beyond the frames the striped writer covered (it covers min(longest, window) frames)
		} else if i < len(in2[c]) {
			want = in2[c][i]
		} else {
			want = 0 // shorter channels are zero-filled up to the longest
		}
	default:
		want = old[k]
	}
	vf.Assert("same-as-sequential", vf.SameBits(got, want))
	vf.Assert("reader-count", n3 == K-b)
	if len(out3) > 0 {
		j := vf.IntRange("j", 0, len(out3)-1)
		vf.Assert("reader-saw-its-range", vf.SameBits(out3[j], old[C*b+j]))
	}
}

func imax(a, b int) int {
	if a > b {
		return a
	}
	return b
}

// c19conv: two goroutines use one shared buffer as a conversion source at the same time, each into its own destination.
func c19conv[S, D signal.SignalTypes](conv func(*signal.Buffer[S], *signal.Buffer[D]) int) {
	C := vf.Pick("C", 1, vf.Param("MaxC", 2))
	K := vf.Pick("K", 1, vf.Param("MaxK", 2))
	base := allocAny[S](C, K, "base")
	s, e := window("w", K)
	src := base.Slice(s, e)
	d1 := signal.Alloc[D](signal.Allocator{Channels: C, Length: K, Capacity: K})
	d2 := signal.Alloc[D](signal.Allocator{Channels: C, Length: K, Capacity: K})
	k := vf.IntRange("k", 0, base.Len()-1)
	before := base.Sample(k)
	n1, n2 := 0, 0
	vf.Par(
		func() { n1 = conv(src, d1) },
		func() { n2 = conv(src, d2) },
	)
	vf.Cover("joined")
	vf.Assert("source-untouched", vf.SameBits(base.Sample(k), before))
	seq := signal.Alloc[D](signal.Allocator{Channels: C, Length: K, Capacity: K})
	n := conv(src, seq)
	j := vf.IntRange("j", 0, seq.Len()-1)
	vf.Assert("same-as-sequential", n1 == n && n2 == n && vf.SameBits(d1.Sample(j), seq.Sample(j)) && vf.SameBits(d2.Sample(j), seq.Sample(j)))
}

func C19_Conv_FloatAsFloat[S, D constraints.Float]() { c19conv[S, D](signal.FloatAsFloat[S, D]) }
func C19_Conv_FloatAsSigned[S constraints.Float, D constraints.Signed]() {
	c19conv[S, D](signal.FloatAsSigned[S, D])
}
func C19_Conv_FloatAsUnsigned[S constraints.Float, D constraints.Unsigned]() {
	c19conv[S, D](signal.FloatAsUnsigned[S, D])
}
func C19_Conv_SignedAsFloat[S constraints.Signed, D constraints.Float]() {
	c19conv[S, D](signal.SignedAsFloat[S, D])
}
func C19_Conv_SignedAsSigned[S, D constraints.Signed]() { c19conv[S, D](signal.SignedAsSigned[S, D]) }
func C19_Conv_SignedAsUnsigned[S constraints.Signed, D constraints.Unsigned]() {
	c19conv[S, D](signal.SignedAsUnsigned[S, D])
}
func C19_Conv_UnsignedAsFloat[S constraints.Unsigned, D constraints.Float]() {
	c19conv[S, D](signal.UnsignedAsFloat[S, D])
}
func C19_Conv_UnsignedAsSigned[S constraints.Unsigned, D constraints.Signed]() {
	c19conv[S, D](signal.UnsignedAsSigned[S, D])
}
func C19_Conv_UnsignedAsUnsigned[S, D constraints.Unsigned]() {
	c19conv[S, D](signal.UnsignedAsUnsigned[S, D])
}

// C19_BigStriped: two goroutines bulk-read one shared buffer large enough for size-dependent paths
// (a striped read with ragged destinations, an interleaved read); results as in a sequential run.
func C19_BigStriped[T signal.SignalTypes]() {
	C := 2
	K := vf.Param("HugeSamples", 4100) / C
	base := signal.Alloc[T](signal.Allocator{Channels: C, Length: K, Capacity: K})
	pos := []int{0, C * (K / 2), C*K - 2}[vf.Pick("at", 0, 2)] // channel 0 of the first, a middle and the last frame
	x := vf.Any[T]("x")
	base.SetSample(pos, x)
	striped := func(r *readResult[T]) {
		r.striped = [][]T{make([]T, K), make([]T, K-1)} // ragged: the result is the longest channel
		r.n2 = signal.ReadStriped(base, r.striped)
	}
	flat := func(r *readResult[T]) {
		r.flat = make([]T, C*K)
		r.n1 = signal.Read(base, r.flat)
	}
	var r1, r2, seq readResult[T]
	vf.Par(func() { striped(&r1) }, func() { flat(&r2) })
	vf.Cover("joined")
	striped(&seq)
	flat(&seq)
	vf.Assert("big:storage-untouched", vf.SameBits(base.Sample(pos), x))
	vf.Assert("big:striped-count", r1.n2 == K && seq.n2 == K)
	vf.Assert("big:flat-count", r2.n1 == K && seq.n1 == K)
	vf.Assert("big:striped-sample", vf.SameBits(r1.striped[0][pos/C], x) && vf.SameBits(seq.striped[0][pos/C], x))
	vf.Assert("big:flat-sample", vf.SameBits(r2.flat[pos], x) && vf.SameBits(seq.flat[pos], x))
}
