package props

import (
	"pipelined.dev/signal"
	"verifharness/vf"
)

// C02_Slice: every (start,end) in the whole int range against a parent that is itself a window.
func C02_Slice[T signal.SignalTypes]() {
	C, K := shape()
	base := allocAny[T](C, K, "base")
	ps, pe := window("p", K)
	parent := base.Slice(ps, pe)
	if pe < K {
		// ragged parents too: a partly filled last frame
		for i, n := 0, vf.Pick("ragged", 0, C-1); i < n; i++ {
			parent.AppendSample(vf.Any[T]("tail"))
		}
	}
	start, end := vf.Any[int]("start"), vf.Any[int]("end") // all 2^128 pairs
	pl, pc, pcap, plen := parent.Len(), parent.Cap(), parent.Capacity(), parent.Length()
	var child *signal.Buffer[T]
	var k0 int
	var before0 T
	if base.Len() > 0 {
		k0 = vf.IntRange("k0", 0, base.Len()-1)
		before0 = base.Sample(k0)
	}
	panicked := vf.Panics(func() { child = parent.Slice(start, end) })
	if base.Len() > 0 {
		vf.Assert("slicing-writes-nothing", vf.SameBits(base.Sample(k0), before0))
	}
	inRange := 0 <= start && start <= end && end <= pcap
	vf.Assert("panics-iff-out-of-range", panicked == !inRange)
	vf.Assert("parent-shape-unchanged", parent.Len() == pl && parent.Cap() == pc && parent.Capacity() == pcap && parent.Length() == plen)
	if panicked {
		vf.Cover("panic")
		return
	}
	vf.Assume(inRange) // the out-of-range-but-returned case was reported above
	vf.Cover("view")
	start, end = vf.Concretize(start), vf.Concretize(end)
	vf.Assert("channels", child.Channels() == C)
	vf.Assert("bitdepth", child.BitDepth() == parent.BitDepth())
	vf.Assert("length", child.Length() == end-start)
	vf.Assert("len", child.Len() == C*(end-start))
	vf.Assert("capacity", child.Capacity() == pcap-start)
	vf.Assert("cap", child.Cap() == C*(pcap-start))
	// the view is a header of its own: a length change through it leaves the parent's length alone
	// slicing the same frames again gives another independent header
	again := parent.Slice(start, end)
	vf.Assert("same-frames-again-is-the-same-window", again.Len() == C*(end-start) && again.Cap() == C*(pcap-start))
	if child.Len() < child.Cap() {
		vf.Cover("child-append")
		child.AppendSample(vf.Any[T]("x"))
		vf.Assert("child-grew", child.Len() == C*(end-start)+1)
		vf.Assert("parent-length-unchanged-by-child-append", parent.Len() == pl && parent.Length() == plen)
		vf.Assert("sibling-view-length-unchanged-by-child-append", again.Len() == C*(end-start))
	} else {
		// a full window: a growing append through it must not change the other view of the same frames either
		vf.Cover("child-grow")
		g := parent.Slice(start, end)
		g.Append(allocAny[T](C, 1, "more"))
		vf.Assert("sibling-view-length-unchanged-by-growth", again.Len() == C*(end-start) && again.Cap() == C*(pcap-start) && child.Len() == C*(end-start))
		vf.Assert("parent-length-unchanged-by-growth", parent.Len() == pl && parent.Cap() == pc)
	}
	full := child.Slice(0, child.Capacity())
	if full.Len() == 0 {
		vf.Cover("empty-child")
		return
	}
	// write through the child: seen by the base at frame ps+start+i, nowhere else
	i := vf.IntRange("i", 0, full.Length()-1)
	c := vf.IntRange("c", 0, C-1)
	k := vf.IntRange("k", 0, base.Len()-1)
	v := vf.Any[T]("v")
	before := base.Sample(k)
	full.SetSample(full.BufferIndex(c, i), v)
	hit := C*(ps+start+i) + c
	vf.Assert("write-through-child", vf.SameBits(base.Sample(hit), v))
	vf.Assert("child-write-frame", vf.Implies(k != hit, vf.SameBits(base.Sample(k), before)))
	// write through the base: seen by the child
	v2 := vf.Any[T]("v2")
	base.SetSample(hit, v2)
	vf.Assert("write-through-parent", vf.SameBits(full.Sample(C*i+c), v2))
	vf.Assert("parent-shape-after", parent.Len() == pl && parent.Cap() == pc)
}

// C02_Nested: p.Slice(a,b).Slice(c,d) is p.Slice(a+c,a+d).
func C02_Nested[T signal.SignalTypes]() {
	C, K := shape()
	base := allocAny[T](C, K, "base")
	a, b := window("ab", K)
	v1 := base.Slice(a, b)
	cc := vf.Pick("c", 0, K-a)
	d := vf.Pick("d", cc, K-a)
	n := v1.Slice(cc, d)
	direct := base.Slice(a+cc, a+d)
	vf.Assert("nested-len", n.Len() == direct.Len() && n.Length() == direct.Length())
	vf.Assert("nested-cap", n.Cap() == direct.Cap() && n.Capacity() == direct.Capacity())
	fn, fd := n.Slice(0, n.Capacity()), direct.Slice(0, direct.Capacity())
	if fn.Len() == 0 {
		return
	}
	vf.Cover("nested-nonempty")
	k := vf.IntRange("k", 0, fn.Len()-1)
	v := vf.Any[T]("v")
	fn.SetSample(k, v)
	vf.Assert("nested-same-storage", vf.SameBits(fd.Sample(k), v))
	vf.Assert("nested-base-position", vf.SameBits(base.Sample(C*(a+cc)+k), v))
}
