package props

import (
	"golang.org/x/exp/constraints"
	"pipelined.dev/signal"
	"verifharness/vf"
)

func isSigned[T constraints.Integer]() bool {
	var z T
	return ^z < 0
}

func widthOf[T constraints.Integer]() uint {
	var z T
	return uint(bitWidth(z))
}

// amp is the amplitude of a fixed-point code: the value itself for signed formats,
// code - 2^(depth-1) for unsigned ones (as int64; exact for every depth up to 64).
func amp[T constraints.Integer](v T) int64 {
	if isSigned[T]() {
		return int64(v)
	}
	w := widthOf[T]()
	if w == 64 {
		return int64(uint64(v) - (1 << 63)) // wraps: the same as flipping the top bit
	}
	return int64(v) - int64(1)<<(w-1)
}

// code is the inverse of amp.
func code[T constraints.Integer](a int64) T {
	if isSigned[T]() {
		return T(a)
	}
	w := widthOf[T]()
	if w == 64 {
		return T(uint64(a) + (1 << 63))
	}
	return T(a + int64(1)<<(w-1))
}

func minAmp[T constraints.Integer]() int64 { return -(int64(1) << (widthOf[T]() - 1)) }
func maxAmp[T constraints.Integer]() int64 { return int64(^uint64(0) >> (65 - widthOf[T]())) }

// conv2 converts two samples with the real function. Case split over the layout: two frames of a mono
// buffer, the two channels of one frame, buffers handed out again by a pool after a put, or (C06/C07) the ends
// of a long buffer (value-level
// behaviour must not depend on layout or on the buffers' history). The destination holds stale samples.
func conv2[S, D signal.SignalTypes](conv func(*signal.Buffer[S], *signal.Buffer[D]) int, x0, x1 S) (D, D) {
	a := signal.Allocator{Channels: 1, Length: 3, Capacity: 3} // three frames: odd sizes exercise loop remainders
	layout := vf.PickOnce("layout", 0, 2+vf.Param("BigLayout", 0))
	if vf.Param("WindowLayout", 1) == 1 && vf.PickOnce("windows", 0, 1) == 1 {
		// both operands are windows (frame 1 onwards) of larger buffers
		bs := signal.Alloc[S](signal.Allocator{Channels: 1, Length: 3, Capacity: 4})
		bd := signal.Alloc[D](signal.Allocator{Channels: 1, Length: 3, Capacity: 4})
		src, dst := bs.Slice(1, 3), bd.Slice(1, 3)
		dst.SetSample(0, 1)
		dst.SetSample(1, 1)
		src.SetSample(0, x0)
		src.SetSample(1, x1)
		vf.Assert("frames-converted", conv(src, dst) == 2)
		return dst.Sample(0), dst.Sample(1)
	}
	if layout == 1 {
		a = signal.Allocator{Channels: 2, Length: 1, Capacity: 1}
	}
	if layout == 3 {
		// a long mono buffer (size-dependent code paths); the two samples sit at its ends
		n := vf.Param("BigFrames", 603)
		a = signal.Allocator{Channels: 1, Length: n, Capacity: n}
		src, dst := signal.Alloc[S](a), signal.Alloc[D](a)
		dst.SetSample(0, 1)
		dst.SetSample(n-2, 1)
		src.SetSample(0, x0)
		src.SetSample(n-2, x1)
		vf.Assert("frames-converted", conv(src, dst) == n)
		return dst.Sample(0), dst.Sample(n - 2)
	}
	src, dst := signal.Alloc[S](a), signal.Alloc[D](a)
	if layout == 2 {
		ps, pd := signal.PoolAlloc[S](a), signal.PoolAlloc[D](a)
		ps.Put(ps.Get())
		pd.Put(pd.Get())
		src, dst = ps.Get(), pd.Get()
	}
	dst.SetSample(0, 1)
	dst.SetSample(1, 1)
	src.SetSample(0, x0)
	src.SetSample(1, x1)
	n := conv(src, dst)
	vf.Assert("frames-converted", n == a.Length)
	return dst.Sample(0), dst.Sample(1)
}

// c06: order preservation and reference levels, all 2^w x 2^w sample pairs (symbolic).
func c06[S, D constraints.Integer](conv func(*signal.Buffer[S], *signal.Buffer[D]) int) {
	x0, x1 := vf.Any[S]("x0"), vf.Any[S]("x1")
	r0, r1 := conv2(conv, x0, x1)
	vf.Assert("order-preserved", vf.Implies(amp(x0) <= amp(x1), amp(r0) <= amp(r1)))
	lo, hi := conv2(conv, code[S](minAmp[S]()), code[S](maxAmp[S]()))
	vf.Assert("lowest-to-lowest", amp(lo) == minAmp[D]())
	vf.Assert("highest-to-highest", amp(hi) == maxAmp[D]())
	z, _ := conv2(conv, code[S](0), code[S](0))
	vf.Assert("zero-to-zero", amp(z) == 0)
}

// c07: accuracy when narrowing, identity at equal depth.
func c07[S, D constraints.Integer](conv func(*signal.Buffer[S], *signal.Buffer[D]) int) {
	ws, wd := widthOf[S](), widthOf[D]()
	if ws < wd {
		return
	}
	x := vf.Any[S]("x")
	r0, r := conv2(conv, x, x)
	vf.Assert("both-positions-agree", r0 == r)
	d := ws - wd
	if d == 0 {
		vf.Cover("same-depth")
		vf.Assert("same-depth-identity", amp(r) == amp(x))
		return
	}
	vf.Cover("narrowing")
	fl := amp(x) >> d
	rem := amp(x) & (int64(1)<<d - 1)
	vf.Assert("one-of-two-neighbours", amp(r) == fl || (rem != 0 && amp(r) == fl+1))
	vf.Assert("exact-when-divisible", vf.Implies(rem == 0, amp(r) == fl))
}

// c07rt: widening followed by the narrowing that returns to the original format is the identity.
func c07rt[S, D constraints.Integer](widen func(*signal.Buffer[S], *signal.Buffer[D]) int, narrow func(*signal.Buffer[D], *signal.Buffer[S]) int) {
	if widthOf[S]() > widthOf[D]() {
		return
	}
	vf.Cover("round-trip")
	x := vf.Any[S]("x")
	w0, w := conv2(widen, x, x)
	b0, back := conv2(narrow, w0, w)
	vf.Assert("widen-then-narrow-is-identity", back == x && b0 == x)
}

func C06_SignedAsSigned[S, D constraints.Signed]() { c06[S, D](signal.SignedAsSigned[S, D]) }
func C06_SignedAsUnsigned[S constraints.Signed, D constraints.Unsigned]() {
	c06[S, D](signal.SignedAsUnsigned[S, D])
}
func C06_UnsignedAsSigned[S constraints.Unsigned, D constraints.Signed]() {
	c06[S, D](signal.UnsignedAsSigned[S, D])
}
func C06_UnsignedAsUnsigned[S, D constraints.Unsigned]() { c06[S, D](signal.UnsignedAsUnsigned[S, D]) }

func C07_SignedAsSigned[S, D constraints.Signed]() { c07[S, D](signal.SignedAsSigned[S, D]) }
func C07_SignedAsUnsigned[S constraints.Signed, D constraints.Unsigned]() {
	c07[S, D](signal.SignedAsUnsigned[S, D])
}
func C07_UnsignedAsSigned[S constraints.Unsigned, D constraints.Signed]() {
	c07[S, D](signal.UnsignedAsSigned[S, D])
}
func C07_UnsignedAsUnsigned[S, D constraints.Unsigned]() { c07[S, D](signal.UnsignedAsUnsigned[S, D]) }

func C07_RT_SignedSigned[S, D constraints.Signed]() {
	c07rt[S, D](signal.SignedAsSigned[S, D], signal.SignedAsSigned[D, S])
}
func C07_RT_SignedUnsigned[S constraints.Signed, D constraints.Unsigned]() {
	c07rt[S, D](signal.SignedAsUnsigned[S, D], signal.UnsignedAsSigned[D, S])
}
func C07_RT_UnsignedSigned[S constraints.Unsigned, D constraints.Signed]() {
	c07rt[S, D](signal.UnsignedAsSigned[S, D], signal.SignedAsUnsigned[D, S])
}
func C07_RT_UnsignedUnsigned[S, D constraints.Unsigned]() {
	c07rt[S, D](signal.UnsignedAsUnsigned[S, D], signal.UnsignedAsUnsigned[D, S])
}

// c07hist: a conversion on a long buffer gives, sample for sample, what it gives on a short one, whatever
// sibling conversion into the same destination type ran on a long buffer before (no state carried between calls).
func c07hist[A, B, D constraints.Integer](first func(*signal.Buffer[A], *signal.Buffer[D]) int, second func(*signal.Buffer[B], *signal.Buffer[D]) int) {
	n := vf.Param("HistFrames", 1100)
	al := signal.Allocator{Channels: 1, Length: n, Capacity: n}
	a, d1 := signal.Alloc[A](al), signal.Alloc[D](al)
	a.SetSample(0, vf.Any[A]("a"))
	first(a, d1)
	b, d2 := signal.Alloc[B](al), signal.Alloc[D](al)
	x := vf.Any[B]("x")
	b.SetSample(n-1, x)
	second(b, d2)
	one := signal.Allocator{Channels: 1, Length: 1, Capacity: 1}
	sb, sd := signal.Alloc[B](one), signal.Alloc[D](one)
	sb.SetSample(0, x)
	second(sb, sd)
	vf.Cover("history")
	vf.Assert("independent-of-earlier-conversions", d2.Sample(n-1) == sd.Sample(0))
}

func C07_History_SignedThenUnsigned[A constraints.Signed, B constraints.Unsigned, D constraints.Signed]() {
	c07hist[A, B, D](signal.SignedAsSigned[A, D], signal.UnsignedAsSigned[B, D])
}
func C07_History_UnsignedThenSigned[A constraints.Unsigned, B constraints.Signed, D constraints.Unsigned]() {
	c07hist[A, B, D](signal.UnsignedAsUnsigned[A, D], signal.SignedAsUnsigned[B, D])
}
