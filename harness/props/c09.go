package props

import (
	"golang.org/x/exp/constraints"
	"pipelined.dev/signal"
	"verifharness/vf"
)

func precOf[F constraints.Float]() int {
	var z F
	if isF64(z) {
		return 53
	}
	return 24
}

// c09 (exact integer encoding): range, order, accuracy, injectivity of fixed -> floating.
func c09[S constraints.Integer, F constraints.Float](conv func(*signal.Buffer[S], *signal.Buffer[F]) int) {
	depth := int(widthOf[S]())
	s1 := vf.IntClass[S]("s1")
	s2 := vf.IntLike(s1, "s2")
	r1, r2 := conv2(conv, s1, s2)
	a1, a2 := amp(s1), amp(s2)
	vf.Cover("class")
	vf.Assert("not-below-minus-one", r1 >= -1)
	vf.Assert("not-above-one", r1 <= 1)
	vf.Assert("order-preserved-inside-class", vf.Implies(a1 <= a2, r1 <= r2))
	// |result - amplitude/full scale| <= one source step + float rounding (4 ulp of 1)
	vf.Assert("within-one-step-of-amplitude-over-full-scale", vf.RatioDiffLE(r1, a1, fullScale[S](a1 < 0), -(depth-1), 2-precOf[F]()))
	if depth <= 32 && precOf[F]() == 53 {
		vf.Cover("injective-claimed")
		vf.Assert("distinct-samples-distinct-floats", vf.Implies(a1 < a2, r1 < r2))
	}
}

// c09levels (concrete): lowest code -> -1, zero-amplitude code -> 0, highest code -> 1; class junctions ordered.
func c09levels[S constraints.Integer, F constraints.Float](conv func(*signal.Buffer[S], *signal.Buffer[F]) int) {
	lo, hi := conv2(conv, code[S](minAmp[S]()), code[S](maxAmp[S]()))
	vf.Assert("lowest-code-is-minus-one", lo == -1)
	vf.Assert("highest-code-is-one", hi == 1)
	z, _ := conv2(conv, code[S](0), code[S](0))
	vf.Assert("zero-code-is-zero", z == 0)
	// junctions between bit-length classes of the code: 2^k-1 and 2^k (and their negatives for signed sources);
	// strict where the property promises distinct values (depth <= 32 through float64)
	w := int(widthOf[S]())
	strict := w <= 32 && precOf[F]() == 53
	top := w
	if isSigned[S]() {
		top = w - 1
	}
	k := vf.Pick("k", 0, top)
	if k < top {
		p := S(1) << uint(k)
		a, b := conv2(conv, p-1, p)
		vf.Assert("junction-ordered", a <= b)
		vf.Assert("junction-distinct", !strict || a < b)
		if isSigned[S]() {
			c, d := conv2(conv, -p, -(p - 1))
			vf.Assert("junction-ordered", c <= d)
			vf.Assert("junction-distinct", !strict || c < d)
		}
	} else if isSigned[S]() {
		c, d := conv2(conv, code[S](minAmp[S]()), code[S](minAmp[S]())+1)
		vf.Assert("junction-ordered", c <= d)
		vf.Assert("junction-distinct", !strict || c < d)
	}
	vf.Cover("levels")
}

// c09rt: fixed -> floating -> fixed with the matching conversion.
func c09rt[S constraints.Integer, F constraints.Float](to func(*signal.Buffer[S], *signal.Buffer[F]) int, back func(*signal.Buffer[F], *signal.Buffer[S]) int) {
	depth := int(widthOf[S]())
	s := vf.IntClass[S]("s")
	f, _ := conv2(to, s, s)
	b, _ := conv2(back, f, f)
	if precOf[F]() == 53 && depth <= 32 {
		vf.Cover("exact-round-trip")
		vf.Assert("round-trip-returns-the-sample", b == s)
	} else {
		vf.Cover("one-step-round-trip")
		d := amp(b) - amp(s)
		vf.Assert("round-trip-within-one-step-below", d >= -1)
		vf.Assert("round-trip-within-one-step-above", d <= 1)
	}
}

func C09_SignedAsFloat[S constraints.Signed, F constraints.Float]() {
	c09[S, F](signal.SignedAsFloat[S, F])
}
func C09_UnsignedAsFloat[S constraints.Unsigned, F constraints.Float]() {
	c09[S, F](signal.UnsignedAsFloat[S, F])
}
func C09_Levels_SignedAsFloat[S constraints.Signed, F constraints.Float]() {
	c09levels[S, F](signal.SignedAsFloat[S, F])
}
func C09_Levels_UnsignedAsFloat[S constraints.Unsigned, F constraints.Float]() {
	c09levels[S, F](signal.UnsignedAsFloat[S, F])
}
func C09_RT_Signed[S constraints.Signed, F constraints.Float]() {
	c09rt[S, F](signal.SignedAsFloat[S, F], signal.FloatAsSigned[F, S])
}
func C09_RT_Unsigned[S constraints.Unsigned, F constraints.Float]() {
	c09rt[S, F](signal.UnsignedAsFloat[S, F], signal.FloatAsUnsigned[F, S])
}
