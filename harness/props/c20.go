package props

import (
	"golang.org/x/exp/constraints"
	"pipelined.dev/signal"
	"verifharness/vf"
)

// inert: every observer of a buffer that must behave as empty.
func inert[T signal.SignalTypes](b *signal.Buffer[T], what string) {
	vf.Assert(what+":len-0", b.Len() == 0 && b.Length() == 0)
	in := anySlice[T]("in", 2)
	keep := clone(in)
	vf.Assert(what+":write-returns-0", signal.Write(in, b) == 0)
	vf.Assert(what+":read-returns-0", signal.Read(b, in) == 0)
	vf.Assert(what+":read-transfers-nothing", vf.SameBits(in[0], keep[0]) && vf.SameBits(in[1], keep[1]))
	vf.Assert(what+":still-empty", b.Len() == 0 && b.Length() == 0)
}

// C20_ZeroChannels: buffers allocated with zero channels, any length/capacity request.
func C20_ZeroChannels[T signal.SignalTypes]() {
	K := vf.Pick("K", 0, 3)
	L := vf.Pick("L", 0, 3) // with zero channels any length request is inert, also one above the capacity
	var b *signal.Buffer[T]
	panicked := vf.Panics(func() {
		b = signal.Alloc[T](signal.Allocator{Channels: 0, Length: L, Capacity: K})
		vf.Assert("zero-channels", b.Channels() == 0)
		vf.Assert("cap-0", b.Cap() == 0 && b.Capacity() == 0)
		inert(b, "zero-channels")
		b.AppendSample(vf.Any[T]("v"))
		vf.Assert("append-sample-noop", b.Len() == 0 && b.Cap() == 0)
		vf.Assert("write-striped-returns-0", signal.WriteStriped([][]T{}, b) == 0)
		vf.Assert("read-striped-returns-0", signal.ReadStriped(b, [][]T{}) == 0)
		e := signal.Alloc[T](signal.Allocator{})
		b.Append(e)
		vf.Assert("append-empty-stays-empty", b.Len() == 0 && b.Length() == 0 && b.Cap() == 0)
		v := b.Slice(0, 0)
		vf.Assert("slice-0-0", v.Len() == 0 && v.Cap() == 0)
	})
	vf.Assert("no-panic", !panicked)
}

// C20_ChannelLength: ChannelLength with zero channels is 0 for every sample count, not a meaningless number.
func C20_ChannelLength() {
	n := vf.Any[int]("n")
	var r int
	panicked := vf.Panics(func() { r = signal.ChannelLength(n, 0) })
	vf.Assert("no-panic", !panicked)
	vf.Assert("channel-length-0-channels", r == 0)
}

// C20_ZeroCapacity: C >= 1 channels but nothing allocated.
func C20_ZeroCapacity[T signal.SignalTypes]() {
	C := vf.Pick("C", 1, 3)
	panicked := vf.Panics(func() {
		b := signal.Alloc[T](signal.Allocator{Channels: C})
		vf.Assert("cap-0", b.Cap() == 0 && b.Capacity() == 0)
		inert(b, "zero-capacity")
		b.AppendSample(vf.Any[T]("v"))
		vf.Assert("append-sample-noop", b.Len() == 0 && b.Cap() == 0)
		str := make([][]T, C)
		for i := range str {
			str[i] = anySlice[T]("s", 1)
		}
		keep := clone2(str)
		vf.Assert("write-striped-returns-0", signal.WriteStriped(str, b) == 0)
		vf.Assert("read-striped-returns-0", signal.ReadStriped(b, str) == 0)
		vf.Assert("read-striped-transfers-nothing", vf.SameBits(str[0][0], keep[0][0]))
		e := signal.Alloc[T](signal.Allocator{Channels: C})
		b.Append(e)
		vf.Assert("append-empty-stays-empty", b.Len() == 0 && b.Length() == 0)
		ch := b.Channel(0)
		vf.Assert("channel-view-empty", ch.Length() == 0 && ch.Capacity() == 0)
	})
	vf.Assert("no-panic", !panicked)
}

// C20_Pool: degenerate allocators through a pool (zero value; zero channels with any length/capacity request;
// zero capacity with 1..3 channels): get, put, get again.
func C20_Pool[T signal.SignalTypes]() {
	C := vf.Pick("C", 0, 3)
	K := 0
	if C == 0 {
		K = vf.Pick("K", 0, 3)
	}
	L := vf.Pick("L", 0, K)
	panicked := vf.Panics(func() {
		p := signal.PoolAlloc[T](signal.Allocator{Channels: C, Length: L, Capacity: K})
		b := p.Get()
		vf.Assert("pool-inert-buffer", b.Len() == 0 && b.Cap() == 0 && b.Channels() == C && b.Length() == 0 && b.Capacity() == 0)
		b.AppendSample(vf.Any[T]("v"))
		p.Put(b)
		g := p.Get()
		vf.Assert("pool-inert-buffer-again", g.Len() == 0 && g.Cap() == 0 && g.Channels() == C && g.Length() == 0 && g.Capacity() == 0)
	})
	vf.Assert("no-panic", !panicked)
}

// c20conv: conversions on degenerate and zero-length buffers return 0 and transfer nothing.
func c20conv[S, D signal.SignalTypes](conv func(*signal.Buffer[S], *signal.Buffer[D]) int) {
	mode := vf.Pick("mode", 0, 3)
	C := vf.Pick("C", 1, 2)
	var src *signal.Buffer[S]
	var dst *signal.Buffer[D]
	switch mode {
	case 0: // zero channels on both sides
		src = signal.Alloc[S](signal.Allocator{Channels: 0, Length: 1, Capacity: 2})
		dst = signal.Alloc[D](signal.Allocator{Channels: 0, Length: 1, Capacity: 2})
	case 1: // zero capacity on both sides
		src = signal.Alloc[S](signal.Allocator{Channels: C})
		dst = signal.Alloc[D](signal.Allocator{Channels: C})
	case 2: // zero-length source, destination with contents
		src = allocAny[S](C, 2, "src").Slice(0, 0)
		dst = allocAny[D](C, 2, "dst")
	default: // zero-length destination with spare capacity, source with contents
		src = allocAny[S](C, 2, "src")
		dst = allocAny[D](C, 2, "dst").Slice(0, 0)
	}
	fullD := dst.Slice(0, dst.Capacity())
	fullS := src.Slice(0, src.Capacity())
	var k, j int
	var before D
	var sbefore S
	if fullD.Len() > 0 {
		k = vf.IntRange("k", 0, fullD.Len()-1)
		before = fullD.Sample(k)
	}
	if fullS.Len() > 0 {
		j = vf.IntRange("j", 0, fullS.Len()-1)
		sbefore = fullS.Sample(j)
	}
	sl, dl := src.Len(), dst.Len()
	r := -1
	panicked := vf.Panics(func() { r = conv(src, dst) })
	vf.Assert("no-panic", !panicked)
	vf.Assert("returns-0", r == 0)
	vf.Assert("lengths-unchanged", src.Len() == sl && dst.Len() == dl)
	if fullD.Len() > 0 {
		vf.Assert("destination-untouched", vf.SameBits(fullD.Sample(k), before))
	}
	if fullS.Len() > 0 {
		vf.Assert("source-untouched", vf.SameBits(fullS.Sample(j), sbefore))
	}
}

func C20_FloatAsFloat[S, D constraints.Float]() { c20conv[S, D](signal.FloatAsFloat[S, D]) }
func C20_FloatAsSigned[S constraints.Float, D constraints.Signed]() {
	c20conv[S, D](signal.FloatAsSigned[S, D])
}
func C20_FloatAsUnsigned[S constraints.Float, D constraints.Unsigned]() {
	c20conv[S, D](signal.FloatAsUnsigned[S, D])
}
func C20_SignedAsFloat[S constraints.Signed, D constraints.Float]() {
	c20conv[S, D](signal.SignedAsFloat[S, D])
}
func C20_SignedAsSigned[S, D constraints.Signed]() { c20conv[S, D](signal.SignedAsSigned[S, D]) }
func C20_SignedAsUnsigned[S constraints.Signed, D constraints.Unsigned]() {
	c20conv[S, D](signal.SignedAsUnsigned[S, D])
}
func C20_UnsignedAsFloat[S constraints.Unsigned, D constraints.Float]() {
	c20conv[S, D](signal.UnsignedAsFloat[S, D])
}
func C20_UnsignedAsSigned[S constraints.Unsigned, D constraints.Signed]() {
	c20conv[S, D](signal.UnsignedAsSigned[S, D])
}
func C20_UnsignedAsUnsigned[S, D constraints.Unsigned]() {
	c20conv[S, D](signal.UnsignedAsUnsigned[S, D])
}

// C20_ZeroLengthIO: reads and writes on a zero-length window (with capacity behind it) transfer nothing.
func C20_ZeroLengthIO[T signal.SignalTypes]() {
	C := vf.Pick("C", 1, 3)
	base := allocAny[T](C, 2, "base")
	at := vf.Pick("at", 0, 2)
	w := base.Slice(at, at)
	k := vf.IntRange("k", 0, base.Len()-1)
	before := base.Sample(k)
	in := anySlice[T]("in", 3)
	keep := clone(in)
	str := make([][]T, C)
	for i := range str {
		str[i] = anySlice[T]("s", 2)
	}
	keep2 := clone2(str)
	panicked := vf.Panics(func() {
		vf.Assert("write-returns-0", signal.Write(in, w) == 0)
		vf.Assert("read-returns-0", signal.Read(w, in) == 0)
		vf.Assert("write-striped-returns-0", signal.WriteStriped(str, w) == 0)
		vf.Assert("read-striped-returns-0", signal.ReadStriped(w, str) == 0)
	})
	vf.Assert("no-panic", !panicked)
	vf.Assert("storage-untouched", vf.SameBits(base.Sample(k), before))
	vf.Assert("slices-untouched", vf.SameBits(in[0], keep[0]) && vf.SameBits(in[2], keep[2]) && vf.SameBits(str[0][1], keep2[0][1]))
	vf.Assert("still-empty", w.Len() == 0 && w.Length() == 0)
}

// C20_PooledZeroLength: a zero-length buffer handed out again by a pool (after it had been filled) is inert.
func C20_PooledZeroLength[T signal.SignalTypes]() {
	C := vf.Pick("C", 1, 2)
	K := vf.Pick("K", 1, 2)
	p := signal.PoolAlloc[T](signal.Allocator{Channels: C, Length: 0, Capacity: K})
	panicked := vf.Panics(func() {
		b := p.Get()
		for i, n := 0, vf.Pick("n", 0, C*K); i < n; i++ {
			b.AppendSample(vf.Any[T]("v"))
		}
		p.Put(b)
		g := p.Get()
		vf.Assert("cap", g.Cap() == C*K && g.Capacity() == K)
		inert(g, "pooled-zero-length")
		str := make([][]T, C)
		for i := range str {
			str[i] = anySlice[T]("s", 1)
		}
		keep := clone2(str)
		vf.Assert("read-striped-returns-0", signal.ReadStriped(g, str) == 0)
		vf.Assert("read-striped-transfers-nothing", vf.SameBits(str[0][0], keep[0][0]))
		vf.Assert("channel-view-empty", g.Channel(C-1).Length() == 0)
	})
	vf.Assert("no-panic", !panicked)
}
