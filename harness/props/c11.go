package props

import (
	"unsafe"

	"pipelined.dev/signal"
	"verifharness/vf"
)

// C11_Workers: G goroutines x M get/stamp/put cycles on one pool allocator, every interleaving of the pool operations.
func C11_Workers[T signal.SignalTypes]() {
	C := vf.Pick("C", 1, vf.Param("MaxPoolC", 2))
	K := vf.Pick("K", 0, vf.Param("MaxPoolK", 1))
	L := vf.Pick("L", 0, K)
	a := signal.Allocator{Channels: C, Length: L, Capacity: K}
	p := signal.PoolAlloc[T](a)
	G, M := vf.Param("G", 2), vf.Param("M", 1)
	byValue := vf.Pick("by-value", 0, 1) == 1
	ids := make([]T, G)
	for g := range ids {
		ids[g] = vf.Any[T]("id")
		vf.Assume(ids[g] != 0)
		vf.Assume(ids[g] == ids[g]) // not NaN
		for h := 0; h < g; h++ {
			vf.Assume(ids[g] != ids[h])
		}
	}
	var z T
	depth := 8 * int(unsafe.Sizeof(z))
	fs := make([]func(), G)
	for g := 0; g < G; g++ {
		g := g
		pp := &p
		if byValue {
			cp := p // a copy of the allocator value shares the pool
			pp = &cp
		}
		fs[g] = func() {
			for m := 0; m < M; m++ {
				b := pp.Get()
				vf.Own(b, g+1)
				vf.Assert("fresh-shape", b.Channels() == C && b.Len() == C*L && b.Cap() == C*K && b.Length() == L && b.Capacity() == K && int(b.BitDepth()) == depth)
				if b.Cap() == C*K {
					full := b.Slice(0, K)
					for i := 0; i < full.Len(); i++ {
						vf.Assert("fresh-zero", full.Sample(i) == 0)
						full.SetSample(i, ids[g])
					}
					for i := 0; i < full.Len(); i++ {
						vf.Assert("stamp-intact", vf.SameBits(full.Sample(i), ids[g]))
					}
				}
				vf.Release(b, g+1)
				pp.Put(b)
			}
		}
	}
	vf.Par(fs...)
	vf.Cover("joined")
}
