package props

import (
	"unsafe"

	"pipelined.dev/signal"
	"verifharness/vf"
)

// named element types derived from the built-in ones
type (
	NamedInt8    int8
	NamedInt16   int16
	NamedInt32   int32
	NamedInt64   int64
	NamedInt     int
	NamedUint8   uint8
	NamedUint16  uint16
	NamedUint32  uint32
	NamedUint64  uint64
	NamedUint    uint
	NamedUintptr uintptr
	NamedFloat32 float32
	NamedFloat64 float64
)

// C13_Alloc: symbolic length and capacity (no loop in Alloc), channel count case-split.
func C13_Alloc[T signal.SignalTypes]() {
	C := vf.Pick("C", 1, vf.Param("MaxAllocC", 8))
	maxK := vf.Param("MaxAllocK", 4096)
	K := vf.IntRange("K", 0, maxK)
	L := vf.IntRange("L", 0, maxK)
	vf.Assume(L <= K)
	b := signal.Alloc[T](signal.Allocator{Channels: C, Length: L, Capacity: K})
	var z T
	vf.Assert("channels", b.Channels() == C)
	vf.Assert("len", b.Len() == C*L)
	vf.Assert("cap", b.Cap() == C*K)
	vf.Assert("capacity", b.Capacity() == K)
	vf.Assert("bit-depth-is-type-width", int(b.BitDepth()) == 8*int(unsafe.Sizeof(z)))
	full := b.Slice(0, K)
	vf.Assert("full-view", full.Len() == C*K)
	if K > 0 {
		vf.Cover("nonempty")
		k := vf.IntRange("k", 0, C*maxK)
		vf.Assume(k < C*K)
		vf.Assert("zeroed-over-capacity", full.Sample(k) == 0)
		// a second allocation is independent storage
		b2 := signal.Alloc[T](signal.Allocator{Channels: C, Length: K, Capacity: K})
		v := vf.Any[T]("v")
		vf.Assume(v != 0)
		b2.SetSample(k, v)
		vf.Assert("allocations-independent", full.Sample(k) == 0)
		full.SetSample(k, v)
		k2 := vf.IntRange("k2", 0, C*maxK)
		vf.Assume(k2 < C*K)
		vf.Assume(k2 != k)
		vf.Assert("second-still-zero-elsewhere", b2.Sample(k2) == 0)
	}
}

// C13_Length: per-channel length of a fresh buffer (Length uses floating-point division: small bound).
func C13_Length[T signal.SignalTypes]() {
	C := vf.Pick("C", 1, vf.Param("MaxLemmaC", 4))
	K := vf.IntRange("K", 0, vf.Param("MaxLemmaK", 16))
	L := vf.IntRange("L", 0, vf.Param("MaxLemmaK", 16))
	vf.Assume(L <= K)
	b := signal.Alloc[T](signal.Allocator{Channels: C, Length: L, Capacity: K})
	vf.Assert("length", b.Length() == L)
}

// C13_Small: small allocations, case-split shapes: pairs of allocations never share storage, also when the
// first one has spare capacity that is written afterwards.
func C13_Small[T signal.SignalTypes]() {
	C := vf.Pick("C", 1, 3)
	K := vf.Pick("K", 1, 4)
	L := vf.Pick("L", 0, K)
	a := signal.Alloc[T](signal.Allocator{Channels: C, Length: L, Capacity: K})
	b := signal.Alloc[T](signal.Allocator{Channels: C, Length: K, Capacity: K})
	c := signal.Alloc[T](signal.Allocator{Channels: C, Length: 0, Capacity: K})
	vf.Assert("shapes", a.Len() == C*L && a.Cap() == C*K && b.Len() == C*K && b.Cap() == C*K && c.Len() == 0 && c.Cap() == C*K)
	fa := a.Slice(0, K)
	for i := 0; i < C*K; i++ {
		vf.Assert("third-is-zero", c.Slice(0, K).Sample(i) == 0 && b.Sample(i) == 0)
		fa.SetSample(i, 7) // fill the first one over its whole capacity
	}
	for i := 0; i < C*K; i++ {
		vf.Assert("later-allocations-untouched", b.Sample(i) == 0 && c.Slice(0, K).Sample(i) == 0)
		b.SetSample(i, 9)
	}
	for i := 0; i < C*K; i++ {
		vf.Assert("earlier-allocation-untouched", fa.Sample(i) == 7 && c.Slice(0, K).Sample(i) == 0)
	}
	d := signal.Alloc[T](signal.Allocator{Channels: C, Length: L, Capacity: K})
	for i := 0; i < C*K; i++ {
		vf.Assert("fresh-allocation-is-zero", d.Slice(0, K).Sample(i) == 0)
	}
	vf.Cover("small")
}

// C13_History: an allocation is fresh whatever was allocated, grown or returned to a pool before.
func C13_History[T signal.SignalTypes]() {
	C := vf.Pick("C", 1, 3)
	K := vf.Pick("K", 0, 2)
	L := vf.Pick("L", 0, K)
	switch vf.Pick("before", 0, 2) {
	case 0: // an empty buffer of the same channel count was allocated and grown by Append
		e := signal.Alloc[T](signal.Allocator{Channels: C})
		e.Append(allocAny[T](C, 1, "x"))
		vf.Cover("grown-empty")
	case 1: // a pool of another shape with the same total capacity released a buffer
		C2 := vf.Pick("C2", 1, 3)
		if C2 == C || (C*K)%C2 != 0 {
			return
		}
		p := signal.PoolAlloc[T](signal.Allocator{Channels: C2, Length: 0, Capacity: C * K / C2})
		pb := p.Get()
		pb.AppendSample(vf.Any[T]("y"))
		p.Put(pb)
		vf.Cover("pool-released")
	default: // an identical allocation was made and filled
		f := signal.Alloc[T](signal.Allocator{Channels: C, Length: K, Capacity: K})
		for i := 0; i < f.Len(); i++ {
			f.SetSample(i, 5)
		}
		vf.Cover("filled-twin")
	}
	b := signal.Alloc[T](signal.Allocator{Channels: C, Length: L, Capacity: K})
	vf.Assert("channels", b.Channels() == C)
	vf.Assert("len-cap", b.Len() == C*L && b.Cap() == C*K && b.Length() == L && b.Capacity() == K)
	full := b.Slice(0, K)
	for i := 0; i < full.Len(); i++ {
		vf.Assert("zeroed", full.Sample(i) == 0)
	}
}
