// Package props holds the property harnesses. They use only the exported API
// of pipelined.dev/signal plus the vf intrinsics, so the same source is
// executed symbolically (from its SSA) and natively (replay).
package props

import (
	"pipelined.dev/signal"
	"verifharness/vf"
)

// Entries maps entry names (as the front end prints them) to native functions for replay.
var Entries = map[string]func(){}

// shape picks the channel count and capacity in frames within the tier bounds (case split).
func shape() (C, K int) {
	C = vf.Pick("C", 1, vf.Param("MaxC", 3))
	K = vf.Pick("K", 0, vf.Param("MaxK", 3))
	return
}

// allocAny allocates a C-channel buffer of K frames (length == capacity) holding arbitrary samples.
func allocAny[T signal.SignalTypes](C, K int, name string) *signal.Buffer[T] {
	b := signal.Alloc[T](signal.Allocator{Channels: C, Length: K, Capacity: K})
	for i := 0; i < C*K; i++ {
		b.SetSample(i, vf.Any[T](name))
	}
	return b
}

// window picks frames [s,e) of a K-frame buffer (case split).
func window(name string, K int) (s, e int) {
	s = vf.Pick(name+".s", 0, K)
	e = vf.Pick(name+".e", s, K)
	return
}

func ceilDiv(a, b int) int { return (a + b - 1) / b }
