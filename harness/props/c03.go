package props

import (
	"pipelined.dev/signal"
	"verifharness/vf"
)

func contents[T signal.SignalTypes](b *signal.Buffer[T]) []T {
	out := make([]T, b.Len())
	for i := range out {
		out[i] = b.Sample(i)
	}
	return out
}

// C03_Append: destination is a window with spare capacity inside a larger buffer, source in other storage.
func C03_Append[T signal.SignalTypes]() {
	C, K := shape()
	base := allocAny[T](C, K, "base")
	s, e := window("d", K)
	dst := base.Slice(s, e)
	KS := vf.Pick("KS", 0, vf.Param("MaxKS", 3))
	sbase := allocAny[T](C, KS, "sbase")
	ss, se := window("s", KS)
	src := sbase.Slice(ss, se)
	old, add := contents(dst), contents(src)
	want := append(clone(old), add...)
	dl, dcap, sl, scap := dst.Len(), dst.Cap(), src.Len(), src.Cap()
	var k, j int
	var before, sbefore T
	if base.Len() > 0 {
		k = vf.IntRange("k", 0, base.Len()-1)
		before = base.Sample(k)
	}
	if sbase.Len() > 0 {
		j = vf.IntRange("j", 0, sbase.Len()-1)
		sbefore = sbase.Sample(j)
	}
	dst.Append(src)
	vf.Assert("len-grows-by-source-len", dst.Len() == dl+sl)
	vf.Assert("length-grows-by-source-length", dst.Length() == (e-s)+(se-ss))
	vf.Assert("capacity-whole-frames", dst.Cap()%C == 0 && dst.Cap() >= dst.Len() && dst.Capacity()*C == dst.Cap())
	vf.Assert("channels", dst.Channels() == C)
	vf.Assert("source-shape-unchanged", src.Len() == sl && src.Cap() == scap)
	if sbase.Len() > 0 {
		vf.Assert("source-contents-unchanged", vf.SameBits(sbase.Sample(j), sbefore))
	}
	if dl+sl > 0 {
		p := vf.IntRange("p", 0, dl+sl-1)
		vf.Assert("old-then-source", vf.SameBits(dst.Sample(p), want[p]))
	}
	if dl+sl <= dcap {
		vf.Cover("in-place")
		vf.Assert("in-place-capacity-unchanged", dst.Cap() == dcap)
		if base.Len() > 0 {
			q := k - (C*s + dl)
			if sl > 0 {
				vf.Assert("other-views-see-appended", vf.Implies(q >= 0 && q < sl, vf.SameBits(base.Sample(k), add[vf.Ite(q >= 0 && q < sl, q, 0)])))
			}
			vf.Assert("in-place-rest-untouched", vf.Implies(q < 0 || q >= sl, vf.SameBits(base.Sample(k), before)))
		}
	} else {
		vf.Cover("grown")
		if base.Len() > 0 {
			vf.Assert("old-storage-untouched", vf.SameBits(base.Sample(k), before))
			// the destination moved: a later write through it is not seen by the old storage
			p2 := vf.IntRange("p2", 0, dl+sl-1)
			dst.SetSample(p2, vf.Any[T]("v"))
			vf.Assert("moved-view-detached", vf.SameBits(base.Sample(k), before))
		}
		if sbase.Len() > 0 && dl+sl > 0 {
			p3 := vf.IntRange("p3", 0, dl+sl-1)
			dst.SetSample(p3, vf.Any[T]("v3"))
			vf.Assert("new-storage-not-shared-with-source", vf.SameBits(sbase.Sample(j), sbefore))
		}
	}
	vf.Assert("parent-shape", base.Len() == C*K && base.Cap() == C*K)
}

// C03_SelfAppend: the source may be the destination itself.
func C03_SelfAppend[T signal.SignalTypes]() {
	C, K := shape()
	base := allocAny[T](C, K, "base")
	s, e := window("d", K)
	dst := base.Slice(s, e)
	old := contents(dst)
	want := append(clone(old), old...)
	dl, dcap := dst.Len(), dst.Cap()
	dst.Append(dst)
	vf.Assert("self-len-doubles", dst.Len() == 2*dl)
	vf.Assert("self-length-doubles", dst.Length() == 2*(e-s))
	vf.Assert("self-capacity-whole-frames", dst.Cap()%C == 0 && dst.Cap() >= dst.Len())
	if dl > 0 {
		vf.Cover("self-nonempty")
		p := vf.IntRange("p", 0, 2*dl-1)
		vf.Assert("self-old-then-old", vf.SameBits(dst.Sample(p), want[p]))
	}
	if 2*dl <= dcap {
		vf.Assert("self-in-place-capacity", dst.Cap() == dcap)
	}
}

// C03_Twice: repeated appends (the second starts from whatever shape the first left).
func C03_Twice[T signal.SignalTypes]() {
	C, K := shape()
	base := allocAny[T](C, K, "base")
	s, e := window("d", K)
	dst := base.Slice(s, e)
	K1 := vf.Pick("K1", 0, vf.Param("MaxKS", 3))
	K2 := vf.Pick("K2", 0, vf.Param("MaxKS", 3))
	a, b := allocAny[T](C, K1, "a"), allocAny[T](C, K2, "b")
	want := append(append(contents(dst), contents(a)...), contents(b)...)
	dst.Append(a)
	c1 := dst.Cap()
	dst.Append(b)
	vf.Assert("twice-len", dst.Len() == len(want))
	vf.Assert("twice-capacity-whole-frames", dst.Cap()%C == 0 && dst.Cap() >= dst.Len())
	vf.Assert("twice-second-in-place-keeps-capacity", vf.Implies(len(want) <= c1, dst.Cap() == c1))
	if len(want) > 0 {
		p := vf.IntRange("p", 0, len(want)-1)
		vf.Assert("twice-contents", vf.SameBits(dst.Sample(p), want[p]))
	}
}

// C03_ThenOther: after the destination moved to new storage, a growing append on an unrelated buffer
// still leaves the old storage (and every view of it) alone, and is not aliased to it.
func C03_ThenOther[T signal.SignalTypes]() {
	C := vf.Pick("C", 1, vf.Param("MaxC", 2))
	K := vf.Pick("K", 1, vf.Param("MaxK", 3))
	base := allocAny[T](C, K, "base")
	p := base.Slice(0, K)
	p.Append(allocAny[T](C, 1, "more")) // p moves: base is now old storage, still viewed
	old := contents(base)
	q := allocAny[T](C, vf.Pick("kq", 0, 1), "q")
	add := allocAny[T](C, vf.Pick("ka", 1, K), "add")
	want := append(contents(q), contents(add)...)
	q.Append(add) // grows (q was full)
	vf.Cover("second-growth")
	k := vf.IntRange("k", 0, base.Len()-1)
	vf.Assert("old-storage-untouched-by-unrelated-append", vf.SameBits(base.Sample(k), old[k]))
	j := vf.IntRange("j", 0, len(want)-1)
	vf.Assert("unrelated-append-contents", vf.SameBits(q.Sample(j), want[j]))
	base.SetSample(k, vf.Any[T]("v"))
	vf.Assert("unrelated-buffer-not-aliased-to-old-storage", vf.SameBits(q.Sample(j), want[j]))
}

// C03_AppendBig: growth of a destination beyond the small-buffer regime of the growth policy (>= 256 samples,
// several size classes). The shape is a case split (channels, source length as a fraction of the destination,
// destination full or with spare frames); the last destination and the last source sample are symbolic.
func C03_AppendBig[T signal.SignalTypes]() {
	C := vf.Pick("C", 1, vf.Param("MaxC", 3))
	K := vf.Param("BigFrames", 300)
	spare := vf.Pick("spare", 0, 1) * (K / 8)
	base := signal.Alloc[T](signal.Allocator{Channels: C, Length: K, Capacity: K})
	dst := base.Slice(0, K-spare)
	var ks int
	switch vf.Pick("ksel", 0, 7) {
	case 0:
		ks = 1
	case 1:
		ks = K / 4
	case 2:
		ks = K / 2
	case 3:
		ks = 3 * K / 4
	case 4:
		ks = K - 1
	case 5:
		ks = K
	case 6:
		ks = K + K/3
	default:
		ks = 2*K + 1
	}
	src := signal.Alloc[T](signal.Allocator{Channels: C, Length: ks, Capacity: ks})
	dl, dcap, sl, scap := dst.Len(), dst.Cap(), src.Len(), src.Cap()
	// positions are concrete (last sample of each): a symbolic index into ~1000-sample storage does not decide in time
	k, j := dl-1, sl-1
	v, w := vf.Any[T]("v"), vf.Any[T]("w")
	dst.SetSample(k, v)
	src.SetSample(j, w)
	dst.Append(src)
	vf.Assert("len-grows-by-source-len", dst.Len() == dl+sl)
	vf.Assert("length-grows-by-source-length", dst.Length() == K-spare+ks)
	vf.Assert("capacity-whole-frames", dst.Cap()%C == 0 && dst.Cap() >= dst.Len() && dst.Capacity()*C == dst.Cap())
	vf.Assert("source-shape-unchanged", src.Len() == sl && src.Cap() == scap)
	vf.Assert("source-contents-unchanged", vf.SameBits(src.Sample(j), w))
	vf.Assert("old-then-source", vf.SameBits(dst.Sample(k), v) && vf.SameBits(dst.Sample(dl+j), w))
	if dl+sl <= dcap {
		vf.Cover("in-place")
		vf.Assert("in-place-capacity-unchanged", dst.Cap() == dcap)
		vf.Assert("other-views-see-appended", vf.SameBits(base.Sample(dl+j), w))
	} else {
		vf.Cover("grown")
		var zero T
		if spare > 0 {
			vf.Assert("old-storage-untouched", vf.SameBits(base.Sample(dl), zero))
		}
		dst.SetSample(k, vf.Any[T]("v2"))
		vf.Assert("moved-view-detached", vf.SameBits(base.Sample(k), v))
	}
	vf.Assert("parent-shape", base.Len() == C*K && base.Cap() == C*K)
}
