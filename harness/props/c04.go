package props

import (
	"pipelined.dev/signal"
	"verifharness/vf"
)

// C04_AppendSample: from an arbitrary window of a larger buffer, cap-len+2 single-sample appends.
func C04_AppendSample[T signal.SignalTypes]() {
	C, K := shape()
	base := allocAny[T](C, K, "base")
	s, e := window("w", K)
	w := base.Slice(s, e)
	c0 := w.Cap()
	calls := w.Cap() - w.Len() + 2
	maxCalls := vf.Param("MaxCalls", 5)
	if calls > maxCalls {
		calls = maxCalls
	}
	for n := 0; n < calls; n++ {
		l0 := w.Len()
		v := vf.Any[T]("v")
		k := 0
		var before T
		if base.Len() > 0 {
			k = vf.IntRange("k", 0, base.Len()-1) // any position of the whole storage
			before = base.Sample(k)
		}
		w.AppendSample(v)
		vf.Assert("cap-constant", w.Cap() == c0)
		vf.Assert("capacity-constant", w.Capacity() == K-s)
		vf.Assert("channels", w.Channels() == C)
		if l0 < c0 {
			vf.Cover("not-full")
			hit := C*s + l0
			vf.Assert("len+1", w.Len() == l0+1)
			vf.Assert("length-is-ceil", w.Length() == ceilDiv(l0+1, C))
			vf.Assert("stored-at-len", vf.SameBits(w.Sample(l0), v))
			vf.Assert("shared-storage-sees-it", vf.SameBits(base.Sample(hit), v))
			vf.Assert("nothing-else-changes", vf.Implies(k != hit, vf.SameBits(base.Sample(k), before)))
		} else {
			vf.Cover("full")
			vf.Assert("full-noop-len", w.Len() == l0)
			if base.Len() > 0 {
				vf.Assert("full-noop-storage", vf.SameBits(base.Sample(k), before))
			}
		}
		vf.Assert("base-shape", base.Len() == C*K && base.Cap() == C*K)
	}
}
