package props

import (
	"pipelined.dev/signal"
	"verifharness/vf"
)

// C04_AppendSample: from an arbitrary window of a larger buffer, cap-len+2 single-sample appends.
func C04_AppendSample[T signal.SignalTypes]() {
	C, K := shape()
	base := allocAny[T](C, K, "base")
	s, e := window("w", K)
	w := base.Slice(s, e)
	// optionally a window of that window (the middle view then has spare capacity behind it)
	mid := w
	nested := vf.Pick("nested", 0, 1) == 1
	if nested {
		e2 := vf.Pick("w.e2", 0, e-s)
		mid = w
		w = mid.Slice(0, e2)
		e = s + e2
	}
	midLen := mid.Len()
	c0 := w.Cap()
	calls := w.Cap() - w.Len() + 2
	maxCalls := vf.Param("MaxCalls", 5)
	if calls > maxCalls {
		calls = maxCalls
	}
	for n := 0; n < calls; n++ {
		l0 := w.Len()
		v := vf.Any[T]("v")
		k := 0
		var before T
		if base.Len() > 0 {
			k = vf.IntRange("k", 0, base.Len()-1) // any position of the whole storage
			before = base.Sample(k)
		}
		w.AppendSample(v)
		vf.Assert("cap-constant", w.Cap() == c0)
		vf.Assert("capacity-constant", w.Capacity() == K-s)
		vf.Assert("channels", w.Channels() == C)
		if l0 < c0 {
			vf.Cover("not-full")
			hit := C*s + l0
			vf.Assert("len+1", w.Len() == l0+1)
			vf.Assert("length-is-ceil", w.Length() == ceilDiv(l0+1, C))
			vf.Assert("stored-at-len", vf.SameBits(w.Sample(l0), v))
			vf.Assert("shared-storage-sees-it", vf.SameBits(base.Sample(hit), v))
			vf.Assert("nothing-else-changes", vf.Implies(k != hit, vf.SameBits(base.Sample(k), before)))
		} else {
			vf.Cover("full")
			vf.Assert("full-noop-len", w.Len() == l0)
			if base.Len() > 0 {
				vf.Assert("full-noop-storage", vf.SameBits(base.Sample(k), before))
			}
		}
		vf.Assert("base-shape", base.Len() == C*K && base.Cap() == C*K)
		if nested {
			vf.Assert("other-views-keep-their-length", mid.Len() == midLen)
		}
	}
}

// C04_AfterGrowth: single-sample appends on a buffer whose storage came out of a growing Append.
func C04_AfterGrowth[T signal.SignalTypes]() {
	C := vf.Pick("C", 1, vf.Param("MaxC", 3))
	b := signal.Alloc[T](signal.Allocator{Channels: C, Length: 0, Capacity: vf.Pick("K0", 0, 1)})
	b.Append(allocAny[T](C, vf.Pick("k", 1, 5), "src"))
	c0 := b.Cap()
	vf.Assert("capacity-whole-frames", c0%C == 0 && b.Capacity()*C == c0)
	for n := 0; n < C*2+2; n++ {
		l0 := b.Len()
		v := vf.Any[T]("v")
		b.AppendSample(v)
		vf.Assert("cap-constant", b.Cap() == c0)
		vf.Assert("len-within-cap", b.Len() <= b.Cap() && b.Length() <= b.Capacity())
		if l0 < c0 {
			vf.Cover("not-full")
			vf.Assert("len+1", b.Len() == l0+1)
			vf.Assert("stored-at-len", vf.SameBits(b.Sample(l0), v))
		} else {
			vf.Cover("full")
			vf.Assert("full-noop-len", b.Len() == l0)
		}
	}
}
