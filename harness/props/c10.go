package props

import (
	"unsafe"

	"pipelined.dev/signal"
	"verifharness/vf"
)

// fresh asserts that b is indistinguishable from signal.Alloc[T](a).
func fresh[T signal.SignalTypes](b *signal.Buffer[T], a signal.Allocator, what string) {
	var z T
	vf.Assert(what+":channels", b.Channels() == a.Channels)
	vf.Assert(what+":len", b.Len() == a.Channels*a.Length)
	vf.Assert(what+":cap", b.Cap() == a.Channels*a.Capacity)
	vf.Assert(what+":capacity", b.Capacity() == a.Capacity)
	vf.Assert(what+":length", b.Length() == a.Length)
	vf.Assert(what+":bit-depth", int(b.BitDepth()) == 8*int(unsafe.Sizeof(z)))
	if b.Cap() == a.Channels*a.Capacity && a.Channels*a.Capacity > 0 {
		full := b.Slice(0, a.Capacity)
		k := vf.IntRange("k", 0, a.Channels*a.Capacity-1)
		vf.Assert(what+":zero-over-capacity", full.Sample(k) == 0)
	}
}

func allocatorShape() signal.Allocator {
	C := vf.Pick("C", 1, vf.Param("MaxPoolC", 2))
	K := vf.Pick("K", 0, vf.Param("MaxPoolK", 2))
	L := vf.Pick("L", 0, K)
	return signal.Allocator{Channels: C, Length: L, Capacity: K}
}

// use leaves b in an arbitrary reachable state: every sample of the capacity overwritten,
// then one of the allowed reshaping uses; returns the buffer to put back (b or a frame-0 slice of it).
func use[T signal.SignalTypes](b *signal.Buffer[T], a signal.Allocator) *signal.Buffer[T] {
	full := b.Slice(0, a.Capacity)
	for i := 0; i < full.Len(); i++ {
		full.SetSample(i, vf.Any[T]("dirt"))
	}
	switch vf.Pick("use", 0, 5) {
	case 5: // reslice from frame 0 (shorter), then single samples up to a partly filled last frame
		vf.Cover("use-shorter-slice-then-samples")
		v := b.Slice(0, vf.Pick("to", 0, a.Length))
		for i, n := 0, vf.Pick("partial", 1, a.Channels); i < n; i++ {
			v.AppendSample(vf.Any[T]("dirt"))
		}
		return v
	case 0: // written only
		vf.Cover("use-write")
	case 1: // single-sample appends (possibly beyond capacity: no-ops there)
		vf.Cover("use-append-sample")
		n := vf.Pick("appends", 1, a.Channels+1)
		for i := 0; i < n; i++ {
			b.AppendSample(vf.Any[T]("dirt"))
		}
	case 2: // buffer append within or beyond capacity
		vf.Cover("use-append")
		o := allocAny[T](a.Channels, vf.Pick("ok", 0, 2), "other")
		b.Append(o)
		// (if the buffer moved to other storage with another capacity, Put must reject it: see C10_Cycle)
	case 3: // reslice from frame 0, shorter
		vf.Cover("use-shorter-slice")
		return b.Slice(0, vf.Pick("to", 0, a.Length))
	default: // reslice from frame 0, longer
		vf.Cover("use-longer-slice")
		return b.Slice(0, vf.Pick("to", a.Length, a.Capacity))
	}
	return b
}

// C10_Cycle: one inductive step - get, arbitrary use, put, get again (the pool may hand back the same buffer or a new one).
func C10_Cycle[T signal.SignalTypes]() {
	a := allocatorShape()
	p := signal.PoolAlloc[T](a)
	b := p.Get()
	fresh(b, a, "first-get")
	back := use(b, a)
	grown := back.Cap() != a.Channels*a.Capacity
	rejected := vf.Panics(func() { p.Put(back) })
	if grown {
		vf.Cover("put-of-grown-buffer")
	}
	vf.Assert("put-accepts-exactly-the-pool-capacity", rejected == grown)
	g := p.Get()
	fresh(g, a, "get-after-put")
}

// C10_TwoCycles: two buffers outstanding, both used and returned, two more gets.
func C10_TwoCycles[T signal.SignalTypes]() {
	a := allocatorShape()
	p := signal.PoolAlloc[T](a)
	b1, b2 := p.Get(), p.Get()
	fresh(b1, a, "first")
	fresh(b2, a, "second")
	if a.Channels*a.Capacity > 0 {
		// no shared storage while both are checked out
		f1, f2 := b1.Slice(0, a.Capacity), b2.Slice(0, a.Capacity)
		k := vf.IntRange("k", 0, f1.Len()-1)
		v := vf.Any[T]("v")
		vf.Assume(v != 0)
		f1.SetSample(k, v)
		k2 := vf.IntRange("k2", 0, f2.Len()-1)
		vf.Assert("outstanding-buffers-independent", f2.Sample(k2) == 0)
	}
	r1, r2 := use(b1, a), use(b2, a)
	if r1.Cap() != a.Channels*a.Capacity || r2.Cap() != a.Channels*a.Capacity {
		return
	}
	p.Put(r1)
	p.Put(r2)
	g1 := p.Get()
	fresh(g1, a, "third")
	g2 := p.Get()
	fresh(g2, a, "fourth")
	vf.Assert("distinct-buffers", g1 != g2)
	if a.Channels*a.Capacity > 0 {
		f1, f2 := g1.Slice(0, a.Capacity), g2.Slice(0, a.Capacity)
		k := vf.IntRange("k", 0, f1.Len()-1)
		v := vf.Any[T]("v")
		vf.Assume(v != 0)
		f1.SetSample(k, v)
		k2 := vf.IntRange("k2", 0, f2.Len()-1)
		vf.Assert("reobtained-buffers-independent", f2.Sample(k2) == 0)
	}
}

// bigCycle: get / dirty one sample / put / get on a buffer large enough for size-dependent paths in Put
// (chunked or concurrent clearing): the dirt at the start, in the middle or at the end is gone.
func bigCycle[T signal.SignalTypes]() {
	C := vf.Pick("C", 1, 2)
	K := vf.Param("HugeSamples", 4100) / C
	a := signal.Allocator{Channels: C, Length: K, Capacity: K}
	p := signal.PoolAlloc[T](a)
	b := p.Get()
	pos := []int{0, C * K / 2, C*K - 1}[vf.Pick("at", 0, 2)]
	b.SetSample(pos, vf.Any[T]("dirt"))
	p.Put(b)
	g := p.Get()
	vf.Cover("big-cycle")
	var z T
	vf.Assert("big:shape", g.Channels() == C && g.Len() == C*K && g.Cap() == C*K)
	vf.Assert("big:zero", vf.SameBits(g.Sample(pos), z))
}

func C10_BigCycle[T signal.SignalTypes]() { bigCycle[T]() }
func C11_BigCycle[T signal.SignalTypes]() { bigCycle[T]() }
