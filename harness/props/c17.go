package props

import (
	"time"

	"pipelined.dev/signal"
	"verifharness/vf"
)

// rateTable is a function, not a package variable: the executor does not run package initialisers.
func rateTable() []float64 {
	return []float64{8000, 11025, 16000, 22050, 32000, 44100, 48000, 88200, 96000, 176400, 192000, 352800, 384000,
		2822400, 5644800, 1, 7, 60, 1000, 1000000, 44100.5, 0.5, 999983, 48000.25, 99999, 31999, 705600, 768000, 3, 12000, 24000, 64000, 500000, 123457, 2, 1.5, 250000.75}
}

const day = 86400

func rate() (float64, signal.Frequency) {
	// the tier picks which of the configured rates run (case split); the rate itself is concrete on every path
	rates := rateTable()
	i := vf.Pick("rate", 0, vf.Param("Rates", len(rates))-1)
	r := rates[i]
	return r, signal.Frequency(r)
}

// C17_Duration: accuracy and order of Duration over all event counts 0..f*24h.
func C17_Duration() {
	r, f := rate()
	maxN := int(r * day)
	n := vf.IntClass[int]("n")
	vf.Assume(n >= 0)
	vf.Assume(n <= maxN)
	// non-decreasing everywhere follows from one step at a time: n and its successor
	n2 := n + 1
	d, d2 := f.Duration(n), f.Duration(n2)
	vf.Cover("class")
	// |d - n*1e9/f| <= 1/2 + rounding   <=>   |d*f - n*1e9| <= f/2 + n*1e9*2^-51
	vf.Assert("duration-within-half-a-nanosecond", vf.LinDiffLE(int64(d), r, int64(n), 1e9, r/2, -51))
	vf.Assert("duration-non-decreasing-step", d <= d2)
	if r <= 1000000 {
		vf.Cover("round-trip-claimed")
		vf.Assert("count-to-duration-and-back", f.Events(d) == n)
	}
}

// C17_Events: accuracy and order of Events over all durations 0..24h.
func C17_Events() {
	r, f := rate()
	maxD := int64(day) * int64(time.Second)
	d := vf.IntClass[int64]("d")
	vf.Assume(d >= 0)
	vf.Assume(d <= maxD)
	d2 := d + 1
	e, e2 := f.Events(time.Duration(d)), f.Events(time.Duration(d2))
	vf.Cover("class")
	// |e - d*f/1e9| <= 1/2 + rounding   <=>   |e*1e9 - d*f| <= 1e9/2 + d*f*2^-51
	vf.Assert("events-within-half-an-event", vf.LinDiffLE(int64(e), 1e9, d, r, 5e8, -51))
	vf.Assert("events-non-decreasing-step", e <= e2)
}

// C17_Junctions (concrete): the values at every bit-length junction are ordered, gluing the per-class results.
func C17_Junctions() {
	r, f := rate()
	maxN := int(r * day)
	for p := 1; p <= maxN && p > 0; p <<= 1 {
		vf.Assert("duration-junction", f.Duration(p-1) <= f.Duration(p))
	}
	vf.Assert("duration-zero", f.Duration(0) == 0)
	maxD := int64(day) * int64(time.Second)
	for p := int64(1); p <= maxD; p <<= 1 {
		vf.Assert("events-junction", f.Events(time.Duration(p-1)) <= f.Events(time.Duration(p)))
	}
	vf.Assert("events-zero", f.Events(0) == 0)
	vf.Cover("junctions")
}
