package props

import (
	"golang.org/x/exp/constraints"
	"pipelined.dev/signal"
	"verifharness/vf"
)

// C16_Bounds: max/min/maxUnsigned for every depth 1..64 against independent formulations.
func C16_Bounds() {
	b := vf.Any[uint8]("b")
	vf.Assume(b >= 1)
	vf.Assume(b <= 64)
	bd := signal.BitDepth(b)
	maxU := bd.MaxUnsignedValue()
	maxS := bd.MaxSignedValue()
	minS := bd.MinSignedValue()
	wantU := ^uint64(0) >> (64 - uint(b))
	vf.Assert("max-unsigned", maxU == wantU)
	vf.Assert("max-signed", maxS >= 0 && uint64(maxS) == wantU>>1)
	vf.Assert("min-signed", minS == -maxS-1)
	// defining facts: maxS+1 is a power of two with exactly bit b-1 set
	vf.Assert("max-signed-pow2", uint64(maxS)+1 == uint64(1)<<(uint(b)-1))
	vf.Assert("max-unsigned-is-2max+1", maxU == 2*uint64(maxS)+1)
}

// C16_ClipSigned: clipping is identity in range, nearest bound outside, idempotent, monotone.
func C16_ClipSigned() {
	b := vf.Any[uint8]("b")
	vf.Assume(b >= 1)
	vf.Assume(b <= 64)
	bd := signal.BitDepth(b)
	// independent bounds
	hi := int64(^uint64(0) >> (64 - uint(b)) >> 1)
	lo := -hi - 1
	v, w := vf.Any[int64]("v"), vf.Any[int64]("w")
	cv, cw := bd.SignedValue(v), bd.SignedValue(w)
	vf.Assert("in-range-identity", vf.Implies(v >= lo && v <= hi, cv == v))
	vf.Assert("below-min", vf.Implies(v < lo, cv == lo))
	vf.Assert("above-max", vf.Implies(v > hi, cv == hi))
	vf.Assert("idempotent", bd.SignedValue(cv) == cv)
	vf.Assert("monotone", vf.Implies(v <= w, cv <= cw))
}

// C16_ClipUnsigned: same for unsigned values.
func C16_ClipUnsigned() {
	b := vf.Any[uint8]("b")
	vf.Assume(b >= 1)
	vf.Assume(b <= 64)
	bd := signal.BitDepth(b)
	hi := ^uint64(0) >> (64 - uint(b))
	v, w := vf.Any[uint64]("v"), vf.Any[uint64]("w")
	cv, cw := bd.UnsignedValue(v), bd.UnsignedValue(w)
	vf.Assert("in-range-identity", vf.Implies(v <= hi, cv == v))
	vf.Assert("above-max", vf.Implies(v > hi, cv == hi))
	vf.Assert("idempotent", bd.UnsignedValue(cv) == cv)
	vf.Assert("monotone", vf.Implies(v <= w, cv <= cw))
}

// C16_Scale: Scale[T](h,l) == 2^(h-l) whenever that fits T.
func C16_Scale[T constraints.Integer]() {
	h, l := vf.Any[uint8]("h"), vf.Any[uint8]("l")
	vf.Assume(l >= 1)
	vf.Assume(l <= h)
	vf.Assume(h <= 64)
	var z T
	width := uint(bitWidth(z))
	signed := ^z < 0
	d := uint(h - l)
	fits := d <= width-1
	if signed {
		fits = d <= width-2
	}
	vf.Assume(fits)
	s := signal.Scale[T](signal.BitDepth(h), signal.BitDepth(l))
	// independent: repeated doubling is avoided; compare against the 64-bit shift truncated to T
	want := T(uint64(1) << d)
	vf.Assert("scale-is-2^(h-l)", s == want)
	vf.Assert("scale-positive", s > 0)
	vf.Assert("scale-single-bit", s&(s-1) == 0)
	vf.Assert("scale-log", uint64(s)>>d == 1)
}

func bitWidth[T constraints.Integer](z T) int {
	n := 0
	for x := ^z; x != 0; x <<= 1 {
		n++
		if n > 64 {
			break
		}
	}
	// ^0 has all bits set; shifting left until zero counts the width
	return n
}

// C16_ScaleHistory: the scale does not depend on which instantiations were asked before.
func C16_ScaleHistory[A, B constraints.Integer]() {
	d1 := vf.Pick("d1", 0, 63)
	d2 := vf.Pick("d2", 0, 63)
	_ = signal.Scale[A](signal.BitDepth(1+d1), 1) // an earlier request, possibly one that does not fit A
	var z B
	width := uint(bitWidth(z))
	fits := uint(d2) <= width-1
	if ^z < 0 {
		fits = uint(d2) <= width-2
	}
	if !fits {
		return
	}
	vf.Cover("fits")
	l := vf.Pick("l", 1, 2)
	vf.Assert("scale-is-2^(h-l)-whatever-came-before", signal.Scale[B](signal.BitDepth(l+d2), signal.BitDepth(l)) == B(uint64(1)<<uint(d2)))
}
