// ssa2json: loads the harness module (which `replace`s pipelined.dev/signal
// with the current working tree), builds go/ssa with generics instantiated and
// dumps everything reachable from the requested entry points as JSON for the
// Python symbolic executor.
//
// usage: ssa2json -dir <harness module dir> -pkg verifharness/props -entries 'regexp' -o out.json
package main

import (
	"crypto/sha256"
	"encoding/hex"
	"encoding/json"
	"flag"
	"fmt"
	"go/constant"
	"go/token"
	"go/types"
	"math"
	"os"
	"regexp"
	"runtime"
	"sort"
	"strings"

	"golang.org/x/tools/go/packages"
	"golang.org/x/tools/go/ssa"
	"golang.org/x/tools/go/ssa/ssautil"
)

type TypeJ struct {
	K      string   `json:"k"`
	Name   string   `json:"name,omitempty"`
	Bits   int      `json:"bits,omitempty"`
	Signed bool     `json:"signed"`
	Elem   string   `json:"elem,omitempty"`
	Len    int64    `json:"len,omitempty"`
	Fields []FieldJ `json:"fields,omitempty"`
	Under  string   `json:"under,omitempty"`
	Elems  []string `json:"elems,omitempty"`
	Str    string   `json:"str"`
}
type FieldJ struct {
	Name string `json:"name"`
	T    string `json:"t"`
}
type InstrJ map[string]interface{}
type BlockJ struct {
	I      int      `json:"i"`
	Instrs []InstrJ `json:"instrs"`
	Succs  []int    `json:"succs"`
	Preds  []int    `json:"preds"`
}
type FuncJ struct {
	Name     string   `json:"name"`
	Pkg      string   `json:"pkg"`
	Origin   string   `json:"origin"`
	TypeArgs []string `json:"typeargs,omitempty"`
	Pos      string   `json:"pos"`
	SrcSha   string   `json:"src_sha,omitempty"`
	Params   []FieldJ `json:"params"`
	FreeVars []FieldJ `json:"freevars,omitempty"`
	Results  []string `json:"results"`
	External bool     `json:"external"`
	Blocks   []BlockJ `json:"blocks,omitempty"`
	Recover  int      `json:"recover"`
}
type Out struct {
	Go      string            `json:"go"`
	Arch    string            `json:"arch"`
	Types   map[string]*TypeJ `json:"types"`
	Funcs   map[string]*FuncJ `json:"funcs"`
	Globals map[string]string `json:"globals"`
	Entries []string          `json:"entries"`
}

var (
	out     = Out{Types: map[string]*TypeJ{}, Funcs: map[string]*FuncJ{}, Globals: map[string]string{}}
	typeIDs = map[string]string{}
	fset    *token.FileSet
	srcs    = map[string][]byte{}
	fnIDs   = map[*ssa.Function]string{}
	fnNames = map[string]int{}
	work    []*ssa.Function
	prog    *ssa.Program
)

func qual(p *types.Package) string { return p.Path() }

func tid(t types.Type) string {
	if a, ok := t.(*types.Alias); ok {
		return tid(types.Unalias(a))
	}
	s := types.TypeString(t, qual)
	if id, ok := typeIDs[s]; ok {
		return id
	}
	id := s
	typeIDs[s] = id
	tj := &TypeJ{Str: s}
	out.Types[id] = tj
	switch u := t.(type) {
	case *types.Basic:
		tj.Name = u.Name()
		info := u.Info()
		switch {
		case info&types.IsBoolean != 0:
			tj.K = "bool"
		case info&types.IsInteger != 0:
			tj.K = "int"
			tj.Signed = info&types.IsUnsigned == 0
			switch u.Kind() {
			case types.Int8, types.Uint8:
				tj.Bits = 8
			case types.Int16, types.Uint16:
				tj.Bits = 16
			case types.Int32, types.Uint32:
				tj.Bits = 32
			default:
				tj.Bits = 64
			}
		case info&types.IsFloat != 0:
			tj.K = "float"
			if u.Kind() == types.Float32 {
				tj.Bits = 32
			} else {
				tj.Bits = 64
			}
		case info&types.IsString != 0:
			tj.K = "string"
		case u.Kind() == types.UnsafePointer:
			tj.K = "unsafeptr"
		case u.Kind() == types.UntypedNil:
			tj.K = "nil"
		default:
			tj.K = "basic-other"
		}
	case *types.Named:
		tj.K = "named"
		tj.Name = s
		tj.Under = tid(u.Underlying())
	case *types.Alias:
		return tid(types.Unalias(u))
	case *types.Pointer:
		tj.K = "ptr"
		tj.Elem = tid(u.Elem())
	case *types.Slice:
		tj.K = "slice"
		tj.Elem = tid(u.Elem())
	case *types.Array:
		tj.K = "array"
		tj.Elem = tid(u.Elem())
		tj.Len = u.Len()
	case *types.Struct:
		tj.K = "struct"
		for i := 0; i < u.NumFields(); i++ {
			f := u.Field(i)
			tj.Fields = append(tj.Fields, FieldJ{f.Name(), tid(f.Type())})
		}
	case *types.Tuple:
		tj.K = "tuple"
		for i := 0; i < u.Len(); i++ {
			tj.Elems = append(tj.Elems, tid(u.At(i).Type()))
		}
	case *types.Signature:
		tj.K = "sig"
	case *types.Interface:
		tj.K = "iface"
	case *types.Map:
		tj.K = "map"
	case *types.Chan:
		tj.K = "chan"
	case *types.TypeParam:
		tj.K = "typeparam"
	default:
		tj.K = "other"
	}
	return id
}

var bodyStd = map[string]bool{"slices": true, "sort": true, "cmp": true, "math/bits": true, "math": true}

func wantBody(fn *ssa.Function) bool {
	if fn.Blocks == nil {
		return false
	}
	p := fn.Pkg
	if p == nil && fn.Origin() != nil {
		p = fn.Origin().Pkg
	}
	if p == nil {
		// synthetic wrappers / bound methods etc.
		return true
	}
	path := p.Pkg.Path()
	first := strings.SplitN(path, "/", 2)[0]
	if strings.Contains(first, ".") || first == "verifharness" {
		return true
	}
	return bodyStd[path]
}

func fid(fn *ssa.Function) string {
	if id, ok := fnIDs[fn]; ok {
		return id
	}
	name := fn.String()
	if n := fnNames[name]; n > 0 {
		fnNames[name] = n + 1
		name = fmt.Sprintf("%s#%d", name, n)
	} else {
		fnNames[name] = 1
	}
	fnIDs[fn] = name
	work = append(work, fn)
	return name
}

func val(v ssa.Value) interface{} {
	switch x := v.(type) {
	case *ssa.Const:
		c := map[string]interface{}{"t": tid(x.Type())}
		if x.Value == nil {
			c["nil"] = true
		} else {
			switch x.Value.Kind() {
			case constant.Bool:
				c["bool"] = constant.BoolVal(x.Value)
			case constant.String:
				c["str"] = constant.StringVal(x.Value)
			case constant.Int:
				// may be typed as float
				if b, ok := x.Type().Underlying().(*types.Basic); ok && b.Info()&types.IsFloat != 0 {
					f, _ := constant.Float64Val(x.Value)
					c["fbits"] = fbits(f, b.Kind() == types.Float32)
				} else {
					c["int"] = x.Value.ExactString()
				}
			case constant.Float:
				b, _ := x.Type().Underlying().(*types.Basic)
				if b != nil && b.Info()&types.IsFloat != 0 {
					f, _ := constant.Float64Val(x.Value)
					c["fbits"] = fbits(f, b.Kind() == types.Float32)
				} else {
					// float constant of integer type cannot happen; keep text
					c["str"] = x.Value.ExactString()
				}
			default:
				c["other"] = x.Value.ExactString()
			}
		}
		return map[string]interface{}{"c": c}
	case *ssa.Parameter:
		for i, p := range x.Parent().Params {
			if p == x {
				return map[string]interface{}{"p": i}
			}
		}
	case *ssa.FreeVar:
		for i, p := range x.Parent().FreeVars {
			if p == x {
				return map[string]interface{}{"fv": i}
			}
		}
	case *ssa.Function:
		return map[string]interface{}{"fn": fid(x)}
	case *ssa.Global:
		name := x.String()
		out.Globals[name] = tid(x.Type())
		return map[string]interface{}{"g": name}
	case *ssa.Builtin:
		return map[string]interface{}{"b": x.Name()}
	default:
		return map[string]interface{}{"r": v.Name()}
	}
	return nil
}

func fbits(f float64, is32 bool) string {
	if is32 {
		return fmt.Sprintf("%d", math.Float32bits(float32(f)))
	}
	return fmt.Sprintf("%d", math.Float64bits(f))
}

func vals(vs []ssa.Value) []interface{} {
	r := make([]interface{}, len(vs))
	for i, v := range vs {
		r[i] = val(v)
	}
	return r
}

func pos(p token.Pos) string {
	if !p.IsValid() {
		return ""
	}
	ps := fset.Position(p)
	return fmt.Sprintf("%s:%d", ps.Filename, ps.Line)
}

func callCommon(c *ssa.CallCommon, ij InstrJ) {
	if c.IsInvoke() {
		ij["invoke"] = c.Method.Name()
		ij["recv"] = val(c.Value)
	} else {
		ij["fnv"] = val(c.Value)
	}
	ij["args"] = vals(c.Args)
	if _, ok := c.Value.(*ssa.Builtin); ok {
		var ts []string
		for _, a := range c.Args {
			ts = append(ts, tid(a.Type()))
		}
		ij["argts"] = ts
	}
}

func instr(in ssa.Instruction) InstrJ {
	ij := InstrJ{}
	if v, ok := in.(ssa.Value); ok {
		ij["reg"] = v.Name()
		ij["t"] = tid(v.Type())
	}
	if p := in.Pos(); p.IsValid() {
		ij["pos"] = pos(p)
	}
	switch x := in.(type) {
	case *ssa.Alloc:
		ij["op"] = "Alloc"
		ij["heap"] = x.Heap
		ij["comment"] = x.Comment
	case *ssa.BinOp:
		ij["op"] = "BinOp"
		ij["tok"] = x.Op.String()
		ij["x"] = val(x.X)
		ij["y"] = val(x.Y)
		ij["xt"] = tid(x.X.Type())
		ij["yt"] = tid(x.Y.Type())
	case *ssa.Call:
		ij["op"] = "Call"
		callCommon(&x.Call, ij)
	case *ssa.ChangeInterface:
		ij["op"] = "ChangeInterface"
		ij["x"] = val(x.X)
	case *ssa.ChangeType:
		ij["op"] = "ChangeType"
		ij["x"] = val(x.X)
	case *ssa.Convert:
		ij["op"] = "Convert"
		ij["x"] = val(x.X)
		ij["xt"] = tid(x.X.Type())
	case *ssa.DebugRef:
		return nil
	case *ssa.Defer:
		ij["op"] = "Defer"
		callCommon(&x.Call, ij)
	case *ssa.Extract:
		ij["op"] = "Extract"
		ij["x"] = val(x.Tuple)
		ij["index"] = x.Index
	case *ssa.Field:
		ij["op"] = "Field"
		ij["x"] = val(x.X)
		ij["field"] = x.Field
	case *ssa.FieldAddr:
		ij["op"] = "FieldAddr"
		ij["x"] = val(x.X)
		ij["field"] = x.Field
	case *ssa.Go:
		ij["op"] = "Go"
		callCommon(&x.Call, ij)
	case *ssa.If:
		ij["op"] = "If"
		ij["x"] = val(x.Cond)
	case *ssa.Index:
		ij["op"] = "Index"
		ij["x"] = val(x.X)
		ij["index"] = val(x.Index)
		ij["xt"] = tid(x.X.Type())
	case *ssa.IndexAddr:
		ij["op"] = "IndexAddr"
		ij["x"] = val(x.X)
		ij["index"] = val(x.Index)
		ij["xt"] = tid(x.X.Type())
		ij["it"] = tid(x.Index.Type())
	case *ssa.Jump:
		ij["op"] = "Jump"
	case *ssa.Lookup:
		ij["op"] = "Lookup"
	case *ssa.MakeChan:
		ij["op"] = "MakeChan"
	case *ssa.MakeClosure:
		ij["op"] = "MakeClosure"
		ij["fn"] = val(x.Fn)
		ij["bindings"] = vals(x.Bindings)
	case *ssa.MakeInterface:
		ij["op"] = "MakeInterface"
		ij["x"] = val(x.X)
		ij["xt"] = tid(x.X.Type())
	case *ssa.MakeMap:
		ij["op"] = "MakeMap"
	case *ssa.MakeSlice:
		ij["op"] = "MakeSlice"
		ij["len"] = val(x.Len)
		ij["cap"] = val(x.Cap)
	case *ssa.MapUpdate:
		ij["op"] = "MapUpdate"
	case *ssa.MultiConvert:
		ij["op"] = "MultiConvert"
	case *ssa.Next:
		ij["op"] = "Next"
	case *ssa.Panic:
		ij["op"] = "Panic"
		ij["x"] = val(x.X)
	case *ssa.Phi:
		ij["op"] = "Phi"
		ij["edges"] = vals(x.Edges)
	case *ssa.Range:
		ij["op"] = "Range"
	case *ssa.Return:
		ij["op"] = "Return"
		ij["results"] = vals(x.Results)
	case *ssa.RunDefers:
		ij["op"] = "RunDefers"
	case *ssa.Select:
		ij["op"] = "Select"
	case *ssa.Send:
		ij["op"] = "Send"
	case *ssa.Slice:
		ij["op"] = "Slice"
		ij["x"] = val(x.X)
		ij["xt"] = tid(x.X.Type())
		if x.Low != nil {
			ij["low"] = val(x.Low)
		}
		if x.High != nil {
			ij["high"] = val(x.High)
		}
		if x.Max != nil {
			ij["max"] = val(x.Max)
		}
	case *ssa.SliceToArrayPointer:
		ij["op"] = "SliceToArrayPointer"
		ij["x"] = val(x.X)
	case *ssa.Store:
		ij["op"] = "Store"
		ij["addr"] = val(x.Addr)
		ij["val"] = val(x.Val)
	case *ssa.TypeAssert:
		ij["op"] = "TypeAssert"
		ij["x"] = val(x.X)
		ij["asserted"] = tid(x.AssertedType)
		ij["commaok"] = x.CommaOk
		_, isIface := x.AssertedType.Underlying().(*types.Interface)
		ij["to_iface"] = isIface
	case *ssa.UnOp:
		ij["op"] = "UnOp"
		ij["tok"] = x.Op.String()
		ij["x"] = val(x.X)
		ij["xt"] = tid(x.X.Type())
		ij["commaok"] = x.CommaOk
	default:
		ij["op"] = fmt.Sprintf("Unknown:%T", in)
	}
	return ij
}

func srcHash(fn *ssa.Function) string {
	syn := fn.Syntax()
	if syn == nil {
		return ""
	}
	p0, p1 := fset.Position(syn.Pos()), fset.Position(syn.End())
	if p0.Filename == "" {
		return ""
	}
	b, ok := srcs[p0.Filename]
	if !ok {
		b, _ = os.ReadFile(p0.Filename)
		srcs[p0.Filename] = b
	}
	if p1.Offset > len(b) || p0.Offset > p1.Offset {
		return ""
	}
	h := sha256.Sum256(b[p0.Offset:p1.Offset])
	return hex.EncodeToString(h[:8])
}

func emit(fn *ssa.Function) {
	id := fnIDs[fn]
	fj := &FuncJ{Name: fn.String(), Pos: pos(fn.Pos()), Recover: -1}
	if fn.Pkg != nil {
		fj.Pkg = fn.Pkg.Pkg.Path()
	} else if o := fn.Origin(); o != nil && o.Pkg != nil {
		fj.Pkg = o.Pkg.Pkg.Path()
	}
	if o := fn.Origin(); o != nil {
		fj.Origin = o.String()
	} else {
		fj.Origin = fn.String()
	}
	for _, ta := range fn.TypeArgs() {
		fj.TypeArgs = append(fj.TypeArgs, tid(ta))
	}
	for _, p := range fn.Params {
		fj.Params = append(fj.Params, FieldJ{p.Name(), tid(p.Type())})
	}
	for _, p := range fn.FreeVars {
		fj.FreeVars = append(fj.FreeVars, FieldJ{p.Name(), tid(p.Type())})
	}
	res := fn.Signature.Results()
	for i := 0; i < res.Len(); i++ {
		fj.Results = append(fj.Results, tid(res.At(i).Type()))
	}
	out.Funcs[id] = fj
	if !wantBody(fn) {
		fj.External = true
		return
	}
	fj.SrcSha = srcHash(fn)
	if fn.Recover != nil {
		fj.Recover = fn.Recover.Index
	}
	for _, b := range fn.Blocks {
		bj := BlockJ{I: b.Index}
		for _, s := range b.Succs {
			bj.Succs = append(bj.Succs, s.Index)
		}
		for _, s := range b.Preds {
			bj.Preds = append(bj.Preds, s.Index)
		}
		for _, in := range b.Instrs {
			if ij := instr(in); ij != nil {
				bj.Instrs = append(bj.Instrs, ij)
			}
		}
		fj.Blocks = append(fj.Blocks, bj)
	}
}

func main() {
	dir := flag.String("dir", ".", "harness module directory")
	pkgPat := flag.String("pkg", "verifharness/props", "package with entries")
	entries := flag.String("entries", ".*", "regexp on entry function names (unqualified, with type args)")
	outPath := flag.String("o", "-", "output")
	flag.Parse()
	re := regexp.MustCompile(*entries)

	cfg := &packages.Config{Mode: packages.LoadAllSyntax, Dir: *dir, Tests: false}
	pkgs, err := packages.Load(cfg, *pkgPat)
	if err != nil {
		fmt.Fprintln(os.Stderr, "load:", err)
		os.Exit(2)
	}
	if packages.PrintErrors(pkgs) > 0 {
		os.Exit(2)
	}
	var spkgs []*ssa.Package
	prog, spkgs = ssautil.AllPackages(pkgs, ssa.InstantiateGenerics)
	prog.Build()
	fset = prog.Fset
	out.Go = runtime.Version()
	out.Arch = runtime.GOARCH

	// entries: the exported map `Entries` in the props package is populated in init;
	// find instantiations/functions by name among all functions.
	all := ssautil.AllFunctions(prog)
	var names []string
	byName := map[string]*ssa.Function{}
	for fn := range all {
		if fn.Pkg == nil && fn.Origin() == nil {
			continue
		}
		p := fn.Pkg
		if p == nil {
			p = fn.Origin().Pkg
		}
		if p == nil || p != spkgs[0] {
			continue
		}
		if fn.Parent() != nil || fn.Synthetic != "" && !strings.HasPrefix(fn.Synthetic, "instance") {
			continue
		}
		if fn.TypeParams().Len() > 0 && len(fn.TypeArgs()) == 0 {
			continue // uninstantiated generic
		}
		n := fn.Name()
		if !strings.HasPrefix(n, "C") && !strings.HasPrefix(n, "T") && !strings.HasPrefix(n, "L") {
			continue
		}
		if re.MatchString(n) {
			names = append(names, n)
			byName[n] = fn
		}
	}
	sort.Strings(names)
	for _, n := range names {
		out.Entries = append(out.Entries, fid(byName[n]))
	}
	for len(work) > 0 {
		fn := work[len(work)-1]
		work = work[:len(work)-1]
		emit(fn)
	}
	var w *os.File = os.Stdout
	if *outPath != "-" {
		w, err = os.Create(*outPath)
		if err != nil {
			fmt.Fprintln(os.Stderr, err)
			os.Exit(2)
		}
		defer w.Close()
	}
	enc := json.NewEncoder(w)
	if err := enc.Encode(&out); err != nil {
		fmt.Fprintln(os.Stderr, err)
		os.Exit(2)
	}
}
